//! C16 — principal text form is a checksummed bijection on 0..29-byte ids (E1 + E3).
//! See /verif/DESIGN.md section 5 and /verif/mc/README-dev.md.
//!
//! Subject: ic_principal::Principal (constructors, text form, serde impls), candid's
//! CandidType impl for it and the 29-byte limit of the wire parser (`PrincipalBytes`).
//! Oracle: R7 (`refmodel::hash`: CRC32, base32, principal_text, principal_parse) plus a
//! second, differently structured local classifier (`classify`) that must agree with R7 on
//! acceptance (a disagreement between the two oracles is a machinery failure, exit 2).
use candid::types::value::{IDLArgs, IDLValue};
use candid::{Decode, Encode};
use ic_principal::{Principal, PrincipalError};
use mclib::engine::{catch, finish, install_quiet_panic_hook, Ctx, Report, Tier};
use refmodel::hash::{crc32, principal_parse, principal_text};
use serde::{Deserialize, Serialize};
use serde_json::{json, Value};
use std::collections::HashSet;
use std::convert::TryFrom;
use std::str::FromStr;

// ---------------------------------------------------------------------------------------
// A minimal non-human-readable serde format ("binary form"): a value is one byte string.
// ---------------------------------------------------------------------------------------
mod bin {
    use serde::{de, ser};
    use std::fmt::Display;

    #[derive(Debug)]
    pub struct E(pub String);
    impl Display for E {
        fn fmt(&self, f: &mut std::fmt::Formatter<'_>) -> std::fmt::Result {
            f.write_str(&self.0)
        }
    }
    impl std::error::Error for E {}
    impl ser::Error for E {
        fn custom<T: Display>(m: T) -> Self {
            E(m.to_string())
        }
    }
    impl de::Error for E {
        fn custom<T: Display>(m: T) -> Self {
            E(m.to_string())
        }
    }

    pub struct BinSer;
    type Imp = ser::Impossible<Vec<u8>, E>;
    macro_rules! no {
        ($($f:ident($($t:ty),*);)*) => {
            $(fn $f(self, $(_: $t),*) -> Result<Vec<u8>, E> {
                Err(E(concat!("binary serializer: unexpected ", stringify!($f)).into()))
            })*
        };
    }
    macro_rules! no_compound {
        ($($f:ident($($t:ty),*) -> $r:ident;)*) => {
            $(fn $f(self, $(_: $t),*) -> Result<Self::$r, E> {
                Err(E(concat!("binary serializer: unexpected ", stringify!($f)).into()))
            })*
        };
    }
    impl ser::Serializer for BinSer {
        type Ok = Vec<u8>;
        type Error = E;
        type SerializeSeq = Imp;
        type SerializeTuple = Imp;
        type SerializeTupleStruct = Imp;
        type SerializeTupleVariant = Imp;
        type SerializeMap = Imp;
        type SerializeStruct = Imp;
        type SerializeStructVariant = Imp;
        fn is_human_readable(&self) -> bool {
            false
        }
        fn serialize_bytes(self, v: &[u8]) -> Result<Vec<u8>, E> {
            Ok(v.to_vec())
        }
        no! {
            serialize_bool(bool); serialize_i8(i8); serialize_i16(i16); serialize_i32(i32); serialize_i64(i64);
            serialize_u8(u8); serialize_u16(u16); serialize_u32(u32); serialize_u64(u64);
            serialize_f32(f32); serialize_f64(f64); serialize_char(char); serialize_str(&str);
            serialize_none(); serialize_unit(); serialize_unit_struct(&'static str);
            serialize_unit_variant(&'static str, u32, &'static str);
        }
        fn serialize_some<T: ?Sized + ser::Serialize>(self, _: &T) -> Result<Vec<u8>, E> {
            Err(E("binary serializer: unexpected serialize_some".into()))
        }
        fn serialize_newtype_struct<T: ?Sized + ser::Serialize>(self, _: &'static str, _: &T) -> Result<Vec<u8>, E> {
            Err(E("binary serializer: unexpected serialize_newtype_struct".into()))
        }
        fn serialize_newtype_variant<T: ?Sized + ser::Serialize>(
            self,
            _: &'static str,
            _: u32,
            _: &'static str,
            _: &T,
        ) -> Result<Vec<u8>, E> {
            Err(E("binary serializer: unexpected serialize_newtype_variant".into()))
        }
        no_compound! {
            serialize_seq(Option<usize>) -> SerializeSeq;
            serialize_tuple(usize) -> SerializeTuple;
            serialize_tuple_struct(&'static str, usize) -> SerializeTupleStruct;
            serialize_tuple_variant(&'static str, u32, &'static str, usize) -> SerializeTupleVariant;
            serialize_map(Option<usize>) -> SerializeMap;
            serialize_struct(&'static str, usize) -> SerializeStruct;
            serialize_struct_variant(&'static str, u32, &'static str, usize) -> SerializeStructVariant;
        }
    }

    /// How the byte string is handed to the visitor. All three are allowed by serde's
    /// contract for `deserialize_bytes`.
    #[derive(Clone, Copy, Debug, PartialEq, Eq)]
    pub enum Hand {
        Borrowed,
        Transient,
        Owned,
    }
    pub struct BinDe<'a> {
        pub data: &'a [u8],
        pub hand: Hand,
    }
    impl<'de> de::Deserializer<'de> for BinDe<'de> {
        type Error = E;
        fn is_human_readable(&self) -> bool {
            false
        }
        fn deserialize_any<V: de::Visitor<'de>>(self, v: V) -> Result<V::Value, E> {
            match self.hand {
                Hand::Borrowed => v.visit_borrowed_bytes(self.data),
                Hand::Transient => v.visit_bytes(self.data),
                Hand::Owned => v.visit_byte_buf(self.data.to_vec()),
            }
        }
        serde::forward_to_deserialize_any! {
            bool i8 i16 i32 i64 i128 u8 u16 u32 u64 u128 f32 f64 char str string bytes byte_buf
            option unit unit_struct newtype_struct seq tuple tuple_struct map struct enum
            identifier ignored_any
        }
    }

    /// A non-human-readable sequence `["A", <bytes>]`, the bytes handed over transiently
    /// (`visit_bytes`, what every reader-based binary format does). Used to deserialize a
    /// `#[serde(tag = ..)]` enum: serde's derive buffers the content and replays it.
    pub struct TagSeqDe<'a> {
        pub data: &'a [u8],
    }
    struct Seq<'a> {
        data: &'a [u8],
        at: u8,
    }
    impl<'de> de::SeqAccess<'de> for Seq<'de> {
        type Error = E;
        fn next_element_seed<T: de::DeserializeSeed<'de>>(&mut self, seed: T) -> Result<Option<T::Value>, E> {
            self.at += 1;
            match self.at {
                1 => seed.deserialize(de::value::StrDeserializer::<E>::new("A")).map(Some),
                2 => seed.deserialize(BinDe { data: self.data, hand: Hand::Transient }).map(Some),
                _ => Ok(None),
            }
        }
    }
    impl<'de> de::Deserializer<'de> for TagSeqDe<'de> {
        type Error = E;
        fn is_human_readable(&self) -> bool {
            false
        }
        fn deserialize_any<V: de::Visitor<'de>>(self, v: V) -> Result<V::Value, E> {
            v.visit_seq(Seq { data: self.data, at: 0 })
        }
        serde::forward_to_deserialize_any! {
            bool i8 i16 i32 i64 i128 u8 u16 u32 u64 u128 f32 f64 char str string bytes byte_buf
            option unit unit_struct newtype_struct seq tuple tuple_struct map struct enum
            identifier ignored_any
        }
    }
}
use bin::{BinDe, BinSer, Hand, TagSeqDe};

/// a Principal inside an internally tagged enum (serde buffers such content before
/// deserializing the variant)
#[derive(Deserialize, Debug, PartialEq)]
#[serde(tag = "t")]
enum Tagged {
    A { id: Principal },
}

// ---------------------------------------------------------------------------------------
// helpers
// ---------------------------------------------------------------------------------------
fn hx(b: &[u8]) -> String {
    hex::encode(b)
}

/// printable, whitespace-free, injective rendering of a text for violation keys
fn esc(t: &str) -> String {
    let mut o = String::new();
    for c in t.chars() {
        if c.is_ascii_graphic() && c != '\\' {
            o.push(c);
        } else {
            o.push_str(&format!("\\u{{{:x}}}", c as u32));
        }
    }
    o
}

fn variant(e: &PrincipalError) -> &'static str {
    match e {
        PrincipalError::BytesTooLong() => "BytesTooLong",
        PrincipalError::InvalidBase32() => "InvalidBase32",
        PrincipalError::TextTooShort() => "TextTooShort",
        PrincipalError::TextTooLong() => "TextTooLong",
        PrincipalError::CheckSequenceNotMatch() => "CheckSequenceNotMatch",
        PrincipalError::AbnormalGrouped(_) => "AbnormalGrouped",
    }
}

/// Observed outcome of one subject call that yields a principal.
#[derive(Clone, Debug, PartialEq, Eq)]
enum Out {
    Ok(Vec<u8>),
    /// rejected with this class (PrincipalError variant name, or "error" for foreign error types)
    Err(String),
    Panic(String),
}
impl Out {
    fn class(&self) -> String {
        match self {
            Out::Ok(_) => "accepted".into(),
            Out::Err(v) => v.clone(),
            Out::Panic(_) => "panic".into(),
        }
    }
    fn show(&self) -> String {
        match self {
            Out::Ok(b) => format!("Ok(principal 0x{})", hx(b)),
            Out::Err(v) => format!("Err({v})"),
            Out::Panic(m) => format!("PANIC({m})"),
        }
    }
}

fn lift(r: Result<Result<Principal, PrincipalError>, String>) -> Out {
    match r {
        Ok(Ok(p)) => Out::Ok(p.as_slice().to_vec()),
        Ok(Err(e)) => Out::Err(variant(&e).to_string()),
        Err(m) => Out::Panic(m),
    }
}
fn lift_any<E: std::fmt::Display>(r: Result<Result<Principal, E>, String>) -> Out {
    match r {
        Ok(Ok(p)) => Out::Ok(p.as_slice().to_vec()),
        Ok(Err(_)) => Out::Err("error".to_string()),
        Err(m) => Out::Panic(m),
    }
}
fn lift_any_msg<E: std::fmt::Display>(r: Result<Result<Principal, E>, String>) -> (Out, String) {
    match r {
        Ok(Ok(p)) => (Out::Ok(p.as_slice().to_vec()), String::new()),
        Ok(Err(e)) => (Out::Err("error".to_string()), e.to_string()),
        Err(m) => (Out::Panic(m.clone()), m),
    }
}

fn s_from_text(t: &str) -> Out {
    lift(catch(|| Principal::from_text(t)))
}
fn s_from_str(t: &str) -> Out {
    lift(catch(|| Principal::from_str(t)))
}
fn s_try_from_str(t: &str) -> Out {
    lift(catch(|| Principal::try_from(t)))
}

/// hand-built candid message: DIDL, empty type table, one argument of type principal,
/// value = 01 <leb len> <bytes>
fn wire(b: &[u8]) -> Vec<u8> {
    let mut m = b"DIDL\x00\x01\x68\x01".to_vec();
    // LEB128 length
    let mut n = b.len();
    loop {
        let byte = (n & 0x7f) as u8;
        n >>= 7;
        if n == 0 {
            m.push(byte);
            break;
        }
        m.push(byte | 0x80);
    }
    m.extend_from_slice(b);
    m
}

// ---------------------------------------------------------------------------------------
// second oracle: classifier written from the IC interface spec's textual-representation
// paragraph, structured differently from R7 (classifies instead of re-printing)
// ---------------------------------------------------------------------------------------
const LOWER: &str = "abcdefghijklmnopqrstuvwxyz234567";

#[derive(Clone, Copy, Debug, PartialEq, Eq)]
enum Class {
    Accepted,
    InvalidChar,
    BadBase32Length,
    NonCanonicalBits,
    TooShort,
    TooLong,
    BadChecksum,
    BadGrouping,
}
impl Class {
    fn name(self) -> &'static str {
        match self {
            Class::Accepted => "accepted",
            Class::InvalidChar => "invalid-char",
            Class::BadBase32Length => "bad-base32-length",
            Class::NonCanonicalBits => "noncanonical-trailing-bits",
            Class::TooShort => "too-short",
            Class::TooLong => "too-long",
            Class::BadChecksum => "bad-checksum",
            Class::BadGrouping => "bad-grouping",
        }
    }
}

fn classify(t: &str) -> (Class, Option<Vec<u8>>) {
    // symbols
    let mut vals: Vec<u8> = vec![];
    // group lengths as written
    let mut groups: Vec<usize> = vec![0];
    for c in t.chars() {
        if c == '-' {
            groups.push(0);
            continue;
        }
        if !c.is_ascii() {
            return (Class::InvalidChar, None);
        }
        let lc = c.to_ascii_lowercase();
        match LOWER.find(lc) {
            Some(i) => vals.push(i as u8),
            None => return (Class::InvalidChar, None),
        }
        *groups.last_mut().unwrap() += 1;
    }
    let nbits = vals.len() * 5;
    let nbytes = nbits / 8;
    let spare = nbits % 8;
    if spare >= 5 {
        return (Class::BadBase32Length, None);
    }
    // bit string
    let mut bits: Vec<bool> = Vec::with_capacity(nbits);
    for v in &vals {
        for k in (0..5).rev() {
            bits.push((v >> k) & 1 == 1);
        }
    }
    if bits[nbytes * 8..].iter().any(|b| *b) {
        return (Class::NonCanonicalBits, None);
    }
    let data: Vec<u8> = (0..nbytes).map(|i| (0..8).fold(0u8, |a, k| (a << 1) | bits[i * 8 + k] as u8)).collect();
    if data.len() < 4 {
        return (Class::TooShort, None);
    }
    let payload = data[4..].to_vec();
    if payload.len() > 29 {
        return (Class::TooLong, None);
    }
    if crc32(&payload).to_be_bytes() != data[..4] {
        return (Class::BadChecksum, None);
    }
    // grouping: every group but the last has exactly 5 symbols, the last 1..=5
    let n = groups.len();
    for (i, g) in groups.iter().enumerate() {
        let ok = if i + 1 < n { *g == 5 } else { (1..=5).contains(g) };
        if !ok {
            return (Class::BadGrouping, None);
        }
    }
    (Class::Accepted, Some(payload))
}

/// The oracle used for verdicts: R7's parser; the local classifier must agree on acceptance
/// and on the principal (otherwise the machinery is broken, not the subject).
fn oracle(t: &str) -> (Option<Vec<u8>>, Class) {
    let m = principal_parse(t);
    let (c, p) = classify(t);
    if m != p {
        eprintln!("ORACLE-DISAGREEMENT text={:?} R7={:?} local={:?}/{:?}", t, m, c, p);
        std::process::exit(2);
    }
    (m, c)
}

// ---------------------------------------------------------------------------------------
// E1: one principal of length <= 29 through every constructor / printer / serde form
// ---------------------------------------------------------------------------------------
struct Cmp<'a> {
    rep: &'a mut Report,
    id: String,
    case: Value,
}
impl Cmp<'_> {
    /// one subject call whose result must equal `want`
    fn eq<T: PartialEq + std::fmt::Debug>(&mut self, op: &str, got: Result<T, String>, want: &T) {
        self.rep.transitions += 1;
        self.rep.traces_validated += 1;
        match got {
            Ok(g) if &g == want => {}
            Ok(g) => {
                let key = format!("{}|{op}|mismatch", self.id);
                self.rep.violation(&key, format!("{op}: observed {g:?}, expected {want:?}"), self.case.clone());
            }
            Err(p) => {
                let key = format!("{}|{op}|panic", self.id);
                self.rep.violation(&key, format!("{op}: panicked: {p}; expected {want:?}"), self.case.clone());
            }
        }
    }
    /// one subject call that must yield exactly the principal `want` (or, if None, any rejection)
    fn out(&mut self, op: &str, got: Out, want: Option<&[u8]>, panic_is_rejection: bool) {
        self.rep.transitions += 1;
        self.rep.traces_validated += 1;
        let ok = match (&got, want) {
            (Out::Ok(b), Some(w)) => b.as_slice() == w,
            (Out::Err(_), None) => true,
            (Out::Panic(_), None) => panic_is_rejection,
            _ => false,
        };
        if !ok {
            let exp = match want {
                Some(w) => format!("Ok(principal 0x{})", hx(w)),
                None => "rejection".to_string(),
            };
            let key = format!("{}|{op}|{}", self.id, got.class());
            self.rep.violation(&key, format!("{op}: observed {}, expected {exp}", got.show()), self.case.clone());
        }
    }
}

fn check_bytes(b: &[u8], fam: &str, rep: &mut Report) {
    assert!(b.len() <= 29);
    rep.evaluations += 1;
    rep.states += 1;
    rep.nontrivial += 1;
    let text = principal_text(b);
    // oracle self-consistency (both oracles accept the canonical text as b)
    let (m, _) = oracle(&text);
    assert_eq!(m.as_deref(), Some(b), "R7 parser does not invert R7 printer on {}", hx(b));
    let upper = text.to_ascii_uppercase();
    let case = json!({"kind": "bytes", "hex": hx(b), "canonical_text": text});
    let mut padded = [0u8; 29];
    padded[..b.len()].copy_from_slice(b);

    // the principal all later calls use; if this fails nothing else can run
    let p = match catch(|| Principal::try_from_slice(b)) {
        Ok(Ok(p)) => p,
        other => {
            rep.transitions += 1;
            rep.traces_validated += 1;
            rep.violation(
                &format!("bytes={}|try_from_slice|rejected", hx(b)),
                format!("try_from_slice rejected a {}-byte string: {:?}", b.len(), other.map(|r| r.map(|_| ()).map_err(|e| variant(&e)))),
                case,
            );
            return;
        }
    };
    let mut c = Cmp { rep, id: format!("bytes={}", hx(b)), case };
    // --- constructors
    c.out("try_from_slice", Out::Ok(p.as_slice().to_vec()), Some(b), false);
    c.eq("len", catch(|| p.len() as usize), &b.len());
    c.eq("as_fixed_bytes", catch(|| *p.as_fixed_bytes()), &padded);
    c.eq("as_ref", catch(|| AsRef::<[u8]>::as_ref(&p).to_vec()), &b.to_vec());
    c.eq("from_slice", catch(|| Principal::from_slice(b)), &p);
    c.eq("TryFrom<&[u8]>", catch(|| Principal::try_from(b)), &Ok(p));
    c.eq("TryFrom<Vec<u8>>", catch(|| Principal::try_from(b.to_vec())), &Ok(p));
    c.eq("TryFrom<&Vec<u8>>", catch(|| Principal::try_from(&b.to_vec())), &Ok(p));
    // --- printers
    c.eq("to_text", catch(|| p.to_text()), &text);
    c.eq("Display", catch(|| format!("{p}")), &text);
    c.eq("ToString", catch(|| p.to_string()), &text);
    // --- parsers on the canonical text and on its upper-case form
    c.out("from_text", s_from_text(&text), Some(b), false);
    c.out("from_text(String)", lift(catch(|| Principal::from_text(text.clone()))), Some(b), false);
    c.out("FromStr", s_from_str(&text), Some(b), false);
    c.out("TryFrom<&str>", s_try_from_str(&text), Some(b), false);
    c.out("from_text(upper)", s_from_text(&upper), Some(b), false);
    c.out("FromStr(upper)", s_from_str(&upper), Some(b), false);
    c.out("TryFrom<&str>(upper)", s_try_from_str(&upper), Some(b), false);
    // --- serde, human-readable (JSON text and JSON value tree)
    let js = format!("\"{text}\"");
    c.eq("serde_json::to_string", catch(|| serde_json::to_string(&p).map_err(|e| e.to_string())), &Ok(js.clone()));
    c.out("serde_json::from_str", lift_any(catch(|| serde_json::from_str::<Principal>(&js))), Some(b), false);
    c.eq("serde_json::to_value", catch(|| serde_json::to_value(p).map_err(|e| e.to_string())), &Ok(Value::String(text.clone())));
    c.out("serde_json::from_value", lift_any(catch(|| serde_json::from_value::<Principal>(Value::String(text.clone())))), Some(b), false);
    c.out("serde_json::from_str(upper)", lift_any(catch(|| serde_json::from_str::<Principal>(&format!("\"{upper}\"")))), Some(b), false);
    // --- serde, binary (non-human-readable): a byte string, handed over borrowed or transient
    c.eq("serde-binary serialize", catch(|| p.serialize(BinSer).map_err(|e| e.0)), &Ok(b.to_vec()));
    c.out("serde-binary deserialize(visit_borrowed_bytes)", lift_any(catch(|| Principal::deserialize(BinDe { data: b, hand: Hand::Borrowed }))), Some(b), false);
    c.out("serde-binary deserialize(visit_bytes)", lift_any(catch(|| Principal::deserialize(BinDe { data: b, hand: Hand::Transient }))), Some(b), false);
    // --- candid binary form
    let w = wire(b);
    c.eq("Encode!", catch(|| Encode!(&p).map_err(|e| e.to_string())), &Ok(w.clone()));
    c.out("Decode!", lift_any(catch(|| Decode!(&w, Principal))), Some(b), false);
    c.eq(
        "IDLArgs::from_bytes",
        catch(|| IDLArgs::from_bytes(&w).map(|a| a.args).map_err(|e| e.to_string())),
        &Ok(vec![IDLValue::Principal(p)]),
    );
    c.eq(
        "IDLArgs::to_bytes",
        catch(|| IDLArgs::new(&[IDLValue::Principal(p)]).to_bytes().map_err(|e| e.to_string())),
        &Ok(w.clone()),
    );
    c.rep.outcome(&format!("{fam}:len{}:accepted", if b.len() <= 2 { b.len().to_string() } else { "3..29".into() }));
    if b.len() == 29 {
        c.rep.outcome("wire:len29:accepted");
    }
    // deterministic samples: the anonymous principal and the ascending 29-byte principal
    if b == [4] || (b.len() == 29 && b[0] == 1 && b[28] == 29) {
        let s = json!({"family": fam, "bytes": hx(b), "text": text, "json": js, "wire": hx(&w)});
        c.rep.sample(s);
    }
}

// ---------------------------------------------------------------------------------------
// byte strings of length 30..=40: every constructor rejects
// ---------------------------------------------------------------------------------------
fn check_long(b: &[u8], rep: &mut Report) {
    assert!(b.len() > 29);
    rep.evaluations += 1;
    rep.states += 1;
    let text = principal_text(b); // R7 printer has no length limit: correct CRC, correct grouping
    let (m, cl) = oracle(&text);
    assert!(m.is_none() && cl == Class::TooLong);
    let upper = text.to_ascii_uppercase();
    // (very long strings are identified by length and leading bytes)
    let (short_hex, short_text) = if b.len() > 64 { (format!("len{}:{}..", b.len(), hx(&b[..8])), format!("{}..", &text[..40])) } else { (hx(b), text.clone()) };
    let pattern = if b.iter().all(|x| *x == 0) {
        "all-00"
    } else if b.iter().all(|x| *x == 0xff) {
        "all-ff"
    } else if b.iter().enumerate().all(|(k, x)| *x == (k + 1) as u8) {
        "ascending"
    } else {
        "other"
    };
    let case = json!({"kind": "long", "hex": short_hex, "length": b.len(), "pattern": pattern, "text_with_correct_crc": short_text});
    let mut c = Cmp { rep, id: format!("long={short_hex}"), case };
    let mut classes: Vec<(String, String)> = vec![];
    let mut go = |c: &mut Cmp, op: &str, o: Out, panic_ok: bool| {
        classes.push((op.to_string(), o.class()));
        c.out(op, o, None, panic_ok);
    };
    go(&mut c, "try_from_slice", lift(catch(|| Principal::try_from_slice(b))), false);
    // contract: "Panics if the slice is longer than 29 bytes" — a panic is the documented rejection
    go(&mut c, "from_slice", lift(catch(|| Ok(Principal::from_slice(b)))), true);
    go(&mut c, "TryFrom<&[u8]>", lift(catch(|| Principal::try_from(b))), false);
    go(&mut c, "TryFrom<Vec<u8>>", lift(catch(|| Principal::try_from(b.to_vec()))), false);
    go(&mut c, "TryFrom<&Vec<u8>>", lift(catch(|| Principal::try_from(&b.to_vec()))), false);
    for (n, t) in [("", &text), ("(upper)", &upper)] {
        go(&mut c, &format!("from_text{n}"), s_from_text(t), false);
        go(&mut c, &format!("FromStr{n}"), s_from_str(t), false);
        go(&mut c, &format!("TryFrom<&str>{n}"), s_try_from_str(t), false);
        go(&mut c, &format!("serde_json::from_str{n}"), lift_any(catch(|| serde_json::from_str::<Principal>(&format!("\"{t}\"")))), false);
    }
    go(&mut c, "serde-binary deserialize(visit_borrowed_bytes)", lift_any(catch(|| Principal::deserialize(BinDe { data: b, hand: Hand::Borrowed }))), false);
    go(&mut c, "serde-binary deserialize(visit_bytes)", lift_any(catch(|| Principal::deserialize(BinDe { data: b, hand: Hand::Transient }))), false);
    let w = wire(b);
    go(&mut c, "Decode!", lift_any(catch(|| Decode!(&w, Principal))), false);
    let fb = match catch(|| IDLArgs::from_bytes(&w)) {
        Ok(Ok(a)) => match a.args.first() {
            Some(IDLValue::Principal(p)) => Out::Ok(p.as_slice().to_vec()),
            _ => Out::Ok(vec![]),
        },
        Ok(Err(_)) => Out::Err("error".into()),
        Err(m) => Out::Panic(m),
    };
    go(&mut c, "IDLArgs::from_bytes", fb, false);
    for (op, cl) in classes {
        let short = op.split('(').next().unwrap().to_string();
        c.rep.outcome(&format!("long:{short}:{cl}"));
    }
    if b.len() == 30 {
        c.rep.outcome("wire:len30:rejected");
        if b[0] == 1 && b[29] == 30 {
            let s = json!({"family": "over-long", "bytes": hx(b), "text_with_correct_crc": text, "all": "rejected"});
            c.rep.sample(s);
        }
    }
}

// ---------------------------------------------------------------------------------------
// E3: one text against the oracle
// ---------------------------------------------------------------------------------------
/// `all_parsers`: also run FromStr / TryFrom<&str> on this text; they must agree with from_text
fn check_text(t: &str, origin: &[u8], fam: &str, all_parsers: bool, rep: &mut Report) {
    rep.evaluations += 1;
    let (m, cl) = oracle(t);
    if m.is_some() {
        rep.nontrivial += 1;
    }
    let case = || json!({"kind": "text", "text": t, "origin_hex": hx(origin), "origin_text": principal_text(origin), "family": fam});
    let got = s_from_text(t);
    rep.transitions += 1;
    rep.traces_validated += 1;
    rep.outcome(&format!("{fam}:{}", got.class()));
    rep.count(&format!("spec={} / subject={}", cl.name(), got.class()), 1);
    let ok = match (&got, &m) {
        (Out::Ok(b), Some(w)) => b == w,
        (Out::Err(_), None) => true,
        _ => false,
    };
    if !ok {
        // re-check once: same input, same observation?
        let stable = if s_from_text(t) == got { "stable on re-run" } else { "NOT stable on re-run" };
        let exp = match &m {
            Some(w) => format!("Ok(principal 0x{})", hx(w)),
            None => format!("rejection ({})", cl.name()),
        };
        rep.violation(
            &format!("text={}|from_text|{}", esc(t), got.class()),
            format!("from_text({t:?}): observed {}, expected {exp}; {stable}", got.show()),
            case(),
        );
    }
    if all_parsers {
        for (op, o) in [("FromStr", s_from_str(t)), ("TryFrom<&str>", s_try_from_str(t))] {
            rep.transitions += 1;
            rep.traces_validated += 1;
            if o != got {
                rep.violation(
                    &format!("text={}|{op}|differs-from-from_text", esc(t)),
                    format!("{op}({t:?}) = {} but from_text = {}", o.show(), got.show()),
                    case(),
                );
            }
        }
    }
}

/// replacement / insertion alphabet: 32 base32 symbols, the 26 distinct upper-case forms,
/// digits outside the alphabet, padding, space, dash and two non-ASCII characters ('é', and
/// U+212A KELVIN SIGN whose Unicode lower-case is 'k' but which is not an ASCII letter)
fn alphabet() -> Vec<char> {
    let mut a: Vec<char> = LOWER.chars().collect();
    a.extend('A'..='Z');
    a.extend(['0', '1', '8', '9', '=', ' ', '-', 'é', '\u{212A}']);
    a
}

/// the full alphabet: every ASCII character (control characters included: a parser that folds case by bit
/// operations can map them onto symbols or dashes) and non-ASCII characters whose Unicode case mappings are ASCII
/// letters (KELVIN SIGN -> k, LONG S -> S, DOTLESS I -> I, FULLWIDTH A)
fn alphabet_full() -> Vec<char> {
    let mut a: Vec<char> = (0u8..=127).map(|b| b as char).collect();
    a.extend(['é', '\u{212A}', '\u{17F}', '\u{131}', '\u{FF21}']);
    a
}

/// All single deviations of a canonical text (deduplicated, canonical text itself excluded
/// unless a deviation reproduces it — that happens for "move the dash back where it was",
/// which is dropped, too).
fn deviations(canon: &str, alpha: &[char]) -> Vec<String> {
    let cs: Vec<char> = canon.chars().collect();
    let n = cs.len();
    let mut set: HashSet<String> = HashSet::new();
    let mut out: Vec<String> = vec![];
    let mut add = |s: String, out: &mut Vec<String>| {
        if s != canon && set.insert(s.clone()) {
            out.push(s);
        }
    };
    // replacements
    for i in 0..n {
        for a in alpha {
            if *a != cs[i] {
                let mut v = cs.clone();
                v[i] = *a;
                add(v.into_iter().collect(), &mut out);
            }
        }
    }
    // insertions
    for i in 0..=n {
        for a in alpha {
            let mut v = cs.clone();
            v.insert(i, *a);
            add(v.into_iter().collect(), &mut out);
        }
    }
    // deletions
    for i in 0..n {
        let mut v = cs.clone();
        v.remove(i);
        add(v.into_iter().collect(), &mut out);
    }
    // dash moves (each dash to every other position), removals are deletions, duplications are
    // insertions; plus: all dashes removed, regrouping by k = 1..=8 left-aligned, groups of 5
    // right-aligned
    for d in 0..n {
        if cs[d] != '-' {
            continue;
        }
        let mut without = cs.clone();
        without.remove(d);
        for j in 0..=without.len() {
            let mut v = without.clone();
            v.insert(j, '-');
            add(v.into_iter().collect(), &mut out);
        }
    }
    let syms: Vec<char> = cs.iter().copied().filter(|c| *c != '-').collect();
    add(syms.iter().collect(), &mut out);
    for k in 1..=8usize {
        let mut s = String::new();
        for (i, c) in syms.iter().enumerate() {
            if i > 0 && i % k == 0 {
                s.push('-');
            }
            s.push(*c);
        }
        add(s, &mut out);
    }
    {
        let mut s = String::new();
        let r = syms.len() % 5;
        for (i, c) in syms.iter().enumerate() {
            if i > 0 && i % 5 == r {
                s.push('-');
            }
            s.push(*c);
        }
        add(s, &mut out);
    }
    // truncations: every proper prefix (incl. the empty text) and every proper suffix
    for i in 0..n {
        add(cs[..i].iter().collect(), &mut out);
        add(cs[i..].iter().collect(), &mut out);
    }
    // case masks of the first group, the all-upper-case form, upper-case with lower-case first char
    let g = n.min(5);
    for mask in 0u32..(1 << g) {
        let mut v = cs.clone();
        for (k, ch) in v.iter_mut().enumerate().take(g) {
            if mask >> k & 1 == 1 {
                *ch = ch.to_ascii_uppercase();
            }
        }
        add(v.into_iter().collect(), &mut out);
    }
    add(canon.to_ascii_uppercase(), &mut out);
    out
}

fn check_origin_single(b: &[u8], alpha: &[char], fam: &str, all_parsers: bool, rep: &mut Report) {
    let canon = principal_text(b);
    let devs = deviations(&canon, alpha);
    rep.states += devs.len() as u64;
    rep.count(&format!("{fam}: origins"), 1);
    rep.count(&format!("{fam}: texts"), devs.len() as u64);
    for t in &devs {
        check_text(t, b, fam, all_parsers, rep);
    }
    if b == [4] || (b.len() == 29 && b[0] == 1 && b[28] == 29) || (b.len() == 30 && b[0] == 1 && b[29] == 30) {
        let k = devs.len();
        rep.sample(json!({"family": fam, "origin": hx(b), "canonical": canon, "deviations": k, "e.g.": [devs[0], devs[k / 3], devs[k / 2], devs[k - 1]]}));
    }
}

/// all pairs of single-character replacements at two different positions among the first two
/// groups (text positions 0..11, including the dash between them)
fn check_origin_pairs(b: &[u8], alpha: &[char], fam: &str, rep: &mut Report) {
    let canon = principal_text(b);
    let cs: Vec<char> = canon.chars().collect();
    let n = cs.len().min(11);
    rep.count(&format!("{fam}: origins"), 1);
    for i in 0..n {
        for j in (i + 1)..n {
            for a in alpha {
                if *a == cs[i] {
                    continue;
                }
                for a2 in alpha {
                    if *a2 == cs[j] {
                        continue;
                    }
                    let mut v = cs.clone();
                    v[i] = *a;
                    v[j] = *a2;
                    let t: String = v.into_iter().collect();
                    rep.states += 1;
                    check_text(&t, b, fam, false, rep);
                }
            }
        }
    }
}

// ---------------------------------------------------------------------------------------
// serde binary form when the format hands over an owned buffer (`visit_byte_buf`)
// ---------------------------------------------------------------------------------------
fn check_owned(b: &[u8], rep: &mut Report) {
    rep.evaluations += 1;
    let want: Option<&[u8]> = if b.len() <= 29 { Some(b) } else { None };
    let deliveries: Vec<(&str, (Out, String))> = vec![
        (
            "format hands the byte string over as an owned buffer (visit_byte_buf)",
            lift_any_msg(catch(|| Principal::deserialize(BinDe { data: b, hand: Hand::Owned }))),
        ),
        (
            "Principal is a field of a #[serde(tag)] enum, format hands the byte string over transiently (visit_bytes), serde's derive buffers and replays it",
            lift_any_msg(catch(|| Tagged::deserialize(TagSeqDe { data: b }).map(|Tagged::A { id }| id))),
        ),
    ];
    let mut bad: Vec<String> = vec![];
    let mut class = "";
    for (how, (got, msg)) in &deliveries {
        rep.transitions += 1;
        rep.traces_validated += 1;
        rep.outcome(&format!("serde-owned:{}", got.class()));
        let ok = match (got, want) {
            (Out::Ok(g), Some(w)) => g.as_slice() == w,
            (Out::Err(_), None) => true,
            _ => false,
        };
        if ok {
            if want.is_some() {
                rep.nontrivial += 1;
            }
            continue;
        }
        // the failure class is the key: the input is any byte string
        let c = match got {
            Out::Ok(_) => "returns-a-wrong-principal",
            Out::Err(_) => "rejects-valid-bytes",
            Out::Panic(_) => "panic",
        };
        if class.is_empty() {
            class = c;
        }
        bad.push(format!("[{how}: observed {}{}]", got.show(), if msg.is_empty() { String::new() } else { format!(" \"{msg}\"") }));
    }
    if !bad.is_empty() {
        // Informational only. `visit_byte_buf` is the private tag-byte side channel between
        // candid's deserializer and ic_principal (first byte 02 = "principal"); what a generic
        // serde format observes when it hands over an owned buffer is not part of C16's
        // statement (text form, round trip, constructors), so it is counted, not reported.
        rep.count(&format!("informational:serde-owned-buffer:{class}"), 1);
        if rep.counters.get("informational:serde-owned-buffer:sample_recorded").is_none() {
            rep.count("informational:serde-owned-buffer:sample_recorded", 1);
            rep.notes.push(format!(
                "informational (not a verdict): Principal::deserialize from an owned buffer, {}-byte string 0x{}: expected {}; {}",
                b.len(),
                hx(b),
                match want {
                    Some(w) => format!("Ok(principal 0x{})", hx(w)),
                    None => "rejection".into(),
                },
                bad.join(" ")
            ));
        }
    }
}

// ---------------------------------------------------------------------------------------
// scopes
// ---------------------------------------------------------------------------------------
fn short_bytes(i: u64) -> Vec<u8> {
    match i {
        0 => vec![],
        1..=256 => vec![(i - 1) as u8],
        _ => {
            let k = i - 257;
            vec![(k >> 8) as u8, (k & 0xff) as u8]
        }
    }
}
const N_SHORT: u64 = 1 + 256 + 65536;

fn structured(len: usize) -> Vec<Vec<u8>> {
    let mut v: Vec<Vec<u8>> = vec![vec![0; len], vec![0xff; len], (1..=len).map(|x| x as u8).collect()];
    for bg in [0u8, 0x55] {
        for pos in 0..len {
            for val in [0x00u8, 0x01, 0x7f, 0x80, 0xfe, 0xff] {
                let mut b = vec![bg; len];
                b[pos] = val;
                v.push(b);
            }
        }
    }
    let mut seen = HashSet::new();
    v.retain(|b| seen.insert(b.clone()));
    v
}

fn parse_args() -> (Tier, Option<String>, Vec<String>) {
    let args: Vec<String> = std::env::args().collect();
    let mut tier = match std::env::var("VERIF_TIER").as_deref() {
        Ok("thorough") => Tier::Thorough,
        _ => Tier::Quick,
    };
    let mut replay = None;
    let mut rest = vec![];
    let mut i = 1;
    while i < args.len() {
        match args[i].as_str() {
            "--tier" => {
                i += 1;
                tier = if args.get(i).map(|s| s.as_str()) == Some("thorough") { Tier::Thorough } else { Tier::Quick };
            }
            "--replay" => {
                i += 1;
                replay = args.get(i).cloned();
            }
            o => rest.push(o.to_string()),
        }
        i += 1;
    }
    (tier, replay, rest)
}

fn replay(path: &str) -> i32 {
    let s = match std::fs::read_to_string(path) {
        Ok(s) => s,
        Err(e) => {
            eprintln!("cannot read {path}: {e}");
            return 2;
        }
    };
    let v: Value = match serde_json::from_str(&s) {
        Ok(v) => v,
        Err(e) => {
            eprintln!("bad json in {path}: {e}");
            return 2;
        }
    };
    let case = if v.get("case").is_some() { &v["case"] } else { &v };
    let unhex = |k: &str| hex::decode(case[k].as_str().unwrap_or("")).unwrap_or_default();
    let mut rep = Report::new();
    match case["kind"].as_str() {
        Some("bytes") => check_bytes(&unhex("hex"), "replay", &mut rep),
        Some("long") => {
            let n = case["length"].as_u64().unwrap_or(0) as usize;
            let b: Vec<u8> = match case["pattern"].as_str() {
                Some("all-00") => vec![0; n],
                Some("all-ff") => vec![0xff; n],
                Some("ascending") => (1..=n).map(|x| x as u8).collect(),
                _ => unhex("hex"),
            };
            check_long(&b, &mut rep)
        }
        Some("owned") => check_owned(&unhex("hex"), &mut rep),
        Some("text") => {
            let t = case["text"].as_str().unwrap_or("");
            check_text(t, &unhex("origin_hex"), "replay", true, &mut rep);
        }
        k => {
            eprintln!("unknown case kind {k:?}");
            return 2;
        }
    }
    for v in &rep.violations {
        println!("REPRODUCED {} :: {}", v.key, v.msg);
    }
    if rep.violations.is_empty() {
        println!("not reproduced: implementation and oracle agree on this case");
        0
    } else {
        1
    }
}

fn main() {
    install_quiet_panic_hook();
    let (tier, replay_path, _rest) = parse_args();
    if let Some(path) = replay_path {
        std::process::exit(replay(&path));
    }
    let ctx = Ctx::new("C16", tier, tier.pick(120, 1200));
    let alpha_full = alphabet_full();
    // thorough: every deviation family uses the full alphabet
    let alpha = if tier == Tier::Thorough { alphabet_full() } else { alphabet() };
    let mut notes: Vec<String> = vec![];

    // ---- E1a: all byte strings of length <= 2
    let mut rep = ctx.par_range("E1a: all byte strings of length <= 2", N_SHORT, 512, || (), |_, i, rep| {
        check_bytes(&short_bytes(i), "E1-short", rep);
    });

    // ---- E1b: structured family for every length 0..=29
    let mut fam: Vec<Vec<u8>> = vec![];
    let mut per_len = vec![];
    for len in 0..=29 {
        let f = structured(len);
        per_len.push(f.len());
        fam.extend(f);
    }
    notes.push(format!("structured family: {} principals over lengths 0..=29 (per length: {:?})", fam.len(), per_len));
    let r = ctx.par_range("E1b: structured family, lengths 0..=29", fam.len() as u64, 64, || (), |_, i, rep| {
        check_bytes(&fam[i as usize], "E1-structured", rep);
    });
    rep.merge(r);

    // ---- E1c: lengths 30..=40 through every constructor (same structured family per length)
    let mut long: Vec<Vec<u8>> = vec![];
    for len in 30..=40 {
        long.extend(structured(len));
    }
    // lengths where a narrower length type wraps (8 and 16 bit): 2^k - 1 ..= 2^k + 30, and around 127/128
    for len in (126..=130usize).chain(255..=286).chain(511..=542).chain(65535..=65566) {
        long.push(vec![0; len]);
        long.push(vec![0xff; len]);
        long.push((1..=len).map(|x| x as u8).collect());
    }
    notes.push(format!("over-long family: {} byte strings over lengths 30..=40 (structured family) and 126..=130, 255..=286, 511..=542, 65535..=65566 (all-00, all-ff, ascending), each also as a correctly checksummed and grouped text", long.len()));
    let r = ctx.par_range("E1c: lengths 30..=40, every constructor", long.len() as u64, 64, || (), |_, i, rep| {
        check_long(&long[i as usize], rep);
    });
    rep.merge(r);

    // ---- E1d: serde binary form through an owned buffer (sequential, smallest inputs first,
    //      so that the recorded case of each failure class is the minimal one)
    {
        let mut owned: Vec<Vec<u8>> = (0..257).map(short_bytes).collect();
        owned.extend(fam.iter().filter(|b| b.len() >= 2).cloned());
        owned.extend(structured(30));
        owned.push(vec![2; 30]);
        owned.push(std::iter::once(2u8).chain(1..=29).collect());
        owned.push(vec![2; 31]);
        let mut r = Report::new();
        for b in &owned {
            check_owned(b, &mut r);
        }
        r.level("E1d: serde binary form via visit_byte_buf", owned.len() as u64, true);
        rep.merge(r);
    }

    // ---- E3a: all single deviations of every canonical text of the reduced set
    let mut origins: Vec<Vec<u8>> = (0..257).map(short_bytes).collect();
    {
        let mut seen: HashSet<Vec<u8>> = origins.iter().cloned().collect();
        for b in &fam {
            if seen.insert(b.clone()) {
                origins.push(b.clone());
            }
        }
    }
    notes.push(format!("E3 reduced set: {} origins (all principals of length <= 1 plus the structured family)", origins.len()));
    let r = ctx.par_range("E3a: single deviations of the reduced set", origins.len() as u64, 4, || (), |_, i, rep| {
        // FromStr / TryFrom<&str> (one-line delegations) run on every deviation of the short
        // principals and of the all-00 / all-ff / ascending ones; quick tier: from_text only elsewhere
        let b = &origins[i as usize];
        let n = b.len();
        let triple = *b == vec![0u8; n] || *b == vec![0xffu8; n] || b.iter().enumerate().all(|(k, x)| *x as usize == k + 1);
        let all = tier == Tier::Thorough || n <= 1 || triple;
        // quick: the full alphabet (all of ASCII) on the short and the all-00 / all-ff / ascending principals
        check_origin_single(b, if all { &alpha_full } else { &alpha }, "E3-single", all, rep);
    });
    rep.merge(r);

    // ---- E3d: single deviations of correctly checksummed texts of 30..=33-byte payloads:
    //      everything is rejected (no 29-byte-or-shorter principal is one edit away)
    let mut long_origins: Vec<Vec<u8>> = vec![];
    for len in 30..=33usize {
        if tier == Tier::Thorough || len == 30 {
            long_origins.extend(structured(len));
        } else {
            long_origins.extend([vec![0; len], vec![0xff; len], (1..=len).map(|x| x as u8).collect()]);
        }
    }
    notes.push(format!(
        "E3d: {} over-long origins ({})",
        long_origins.len(),
        tier.pick("structured family of length 30; all-00, all-ff, ascending of lengths 31..=33", "structured family, lengths 30..=33")
    ));
    let r = ctx.par_range("E3d: single deviations of over-long texts (30..=33 payload bytes)", long_origins.len() as u64, 4, || (), |_, i, rep| {
        check_origin_single(&long_origins[i as usize], &alpha, "E3-overlong", false, rep);
    });
    rep.merge(r);

    if tier == Tier::Thorough {
        // ---- E3b: pairs of replacements in the first two groups, principals of length <= 1
        let r = ctx.par_range("E3b: pairs of replacements, principals of length <= 1", 257, 1, || (), |_, i, rep| {
            check_origin_pairs(&short_bytes(i), &alpha, "E3-pair", rep);
        });
        rep.merge(r);
        // ---- E3e: the same pairs for the all-00 / all-ff / ascending principal of every length 2..=29
        let mut tri: Vec<Vec<u8>> = vec![];
        for len in 2..=29usize {
            tri.push(vec![0; len]);
            tri.push(vec![0xff; len]);
            tri.push((1..=len).map(|x| x as u8).collect());
        }
        let r = ctx.par_range("E3e: pairs of replacements in the first two groups, all-00/all-ff/ascending of length 2..=29", tri.len() as u64, 1, || (), |_, i, rep| {
            check_origin_pairs(&tri[i as usize], &alpha, "E3-pair-structured", rep);
        });
        rep.merge(r);
        // ---- E3c: single deviations of every principal of length 2
        let r = ctx.par_range("E3c: single deviations of all principals of length 2", 65536, 64, || (), |_, i, rep| {
            check_origin_single(&short_bytes(257 + i), &alpha, "E3-single-len2", false, rep);
        });
        rep.merge(r);
    }

    rep.notes.extend(notes);
    rep.notes.push("serde binary form: no non-human-readable serde format crate (serde_cbor, bincode, ciborium) is resolvable offline; the check uses its own minimal non-human-readable Serializer/Deserializer (value = one byte string; is_human_readable() = false) handing bytes over via visit_borrowed_bytes, visit_bytes and (level E1d) visit_byte_buf, plus candid's own Encode!/Decode!/IDLArgs round trip against a hand-built message".into());
    rep.notes.push("counters 'spec=<class> / subject=<variant>' cross-tabulate the local classifier's rejection reason with the PrincipalError variant returned by from_text; only acceptance and the returned principal are compared for the verdict".into());
    let code = finish(
        &ctx,
        rep,
        "E1: every byte string of length <= 2 and a structured family (all-00, all-ff, 1,2,3.., one position in {00,01,7f,80,fe,ff} over all-00 / all-55) for each length 0..=29 through all constructors, printers, parsers, serde JSON, a minimal non-human-readable serde format, candid Encode!/Decode!/IDLArgs; the same family for lengths 30..=40, and all-00 / all-ff / ascending strings of the lengths where an 8- or 16-bit length wraps (126..=130, 255..=286, 511..=542, 65535..=65566), must be rejected by every constructor (from_slice: documented panic), by the wire parser and as correctly checksummed text. E3: for every canonical text of the reduced set all single replacements / insertions over 67 characters (over all 128 ASCII characters and 5 non-ASCII ones for the principals of length <= 1 and the all-00 / all-ff / ascending ones; thorough: everywhere), deletions, dash moves, regroupings, truncations (prefixes and suffixes), first-group case masks, all-upper-case (thorough: pairs of replacements for length <= 1, single deviations for all length-2 principals): accepted iff the R7 parser accepts, with the same principal. states = distinct principals + distinct texts per origin; transitions = subject calls; non-trivial = cases the oracle accepts (principal or text).",
        &[
            "R7 (refmodel::hash: CRC32 IEEE, RFC 4648 base32 lower-case without padding, groups of five) is a correct reading of the IC interface specification's textual representation of principals; a second local classifier agrees with it on every text examined",
            "'equal up to ASCII case' means: the text is ASCII and its ASCII-lower-case form is byte-identical to the canonical text",
        ],
        json!({}),
    );
    std::process::exit(code);
}
