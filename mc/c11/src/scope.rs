//! The enumerated scopes (levels) of C11.
use crate::core::*;
use candid::types::value::{IDLArgs, IDLField, IDLValue, VariantValue};
use candid::types::{Field, Label, Type, TypeEnv, TypeInner};
use candid::{Int, Nat, Principal};
use mclib::bridge;
use mclib::engine::{catch, Ctx, Report, Tier};
use num_bigint::{BigInt, BigUint};
use refmodel::gen::{self, TyAlphabet, ValDomain};
use refmodel::ty::{Env, Prim, Ty};
use serde_json::{json, Value};
use std::collections::BTreeSet;

// ---------------------------------------------------------------------------------------
// small helpers

fn ord(level: u64, index: u64, sub: u64) -> u64 {
    (level << 40) | (index << 8) | (sub & 0xff)
}

pub const CTX: [char; 9] = ['0', 'a', 'F', 'u', '{', '}', '"', '\\', '\''];

fn ctx_class(c: char) -> &'static str {
    if c.is_ascii_digit() {
        "digit"
    } else if c.is_ascii_hexdigit() {
        "hexletter"
    } else {
        "other"
    }
}

/// coarse character classes used as key representatives in the full-range label sweep
fn coarse_class(c: char) -> &'static str {
    match c {
        '\0' => "NUL",
        '\t' | '\n' | '\r' => "tab-nl-cr",
        '\u{1}'..='\u{1f}' => "c0-control",
        ' ' => "space",
        '0'..='9' => "digit",
        'a'..='z' | 'A'..='Z' | '_' => "alpha_",
        '"' => "dquote",
        '\\' => "backslash",
        '\'' => "squote",
        '\u{7f}' => "DEL",
        '\u{21}'..='\u{7e}' => "ascii-punct",
        _ => {
            if c.escape_debug().count() > 1 {
                "nonascii-escaped-by-rust"
            } else {
                "nonascii-literal"
            }
        }
    }
}

fn up(c: char) -> String {
    format!("U+{:04X}", c as u32)
}

fn ty(t: TypeInner) -> Type {
    t.into()
}
fn t_opt(t: Type) -> Type {
    ty(TypeInner::Opt(t))
}
fn t_vec(t: Type) -> Type {
    ty(TypeInner::Vec(t))
}
fn t_rec(fs: Vec<(Label, Type)>) -> Type {
    let mut fs: Vec<Field> = fs.into_iter().map(|(l, t)| Field { id: l.into(), ty: t }).collect();
    fs.sort_by_key(|f| f.id.get_id());
    ty(TypeInner::Record(fs))
}

fn named(s: &str) -> Label {
    Label::Named(s.to_string())
}
fn nat(n: u64) -> IDLValue {
    IDLValue::Nat(Nat(BigUint::from(n)))
}
fn text(s: &str) -> IDLValue {
    IDLValue::Text(s.to_string())
}
fn opt(v: IDLValue) -> IDLValue {
    IDLValue::Opt(Box::new(v))
}
/// record with fields sorted by label id (the well-formedness assumption of the check)
fn rec(fs: Vec<(Label, IDLValue)>) -> IDLValue {
    let mut fs: Vec<IDLField> = fs.into_iter().map(|(id, val)| IDLField { id, val }).collect();
    fs.sort_by_key(|f| f.id.get_id());
    IDLValue::Record(fs)
}
fn var(l: Label, v: IDLValue) -> IDLValue {
    IDLValue::Variant(VariantValue(Box::new(IDLField { id: l, val: v }), 0))
}
fn princ(b: &[u8]) -> Principal {
    Principal::try_from_slice(b).expect("principal")
}

pub struct St {
    env: TypeEnv,
    text_tys: Vec<Type>,
    blob_tys: Vec<Type>,
}
fn st() -> St {
    St { env: TypeEnv::new(), text_tys: vec![ty(TypeInner::Text)], blob_tys: vec![t_vec(ty(TypeInner::Nat8))] }
}

// ---------------------------------------------------------------------------------------
// level: texts (single scalar, scalar + context, context + scalar, pairs)

/// One text of one or two scalars. For a failing two-scalar text the key names the scalar
/// that also fails alone (if any) together with the class of its neighbour.
fn check_text(st: &St, s: &[char], o: u64, rep: &mut Report, col: &Collector) {
    let string: String = s.iter().collect();
    let args = IDLArgs { args: vec![IDLValue::Text(string)] };
    let c = Case { pos: "text", args: &args, tys: &st.text_tys, nontrivial_hint: false };
    let fails = check(&c, &st.env, rep);
    if fails.is_empty() {
        return;
    }
    let alone_fails = |ch: char, f: &Fail| -> bool {
        let a = IDLArgs { args: vec![IDLValue::Text(ch.to_string())] };
        let mut scratch = Report::new();
        !roundtrip(f.printer, f.form, &a, &st.text_tys, &st.env, &mut scratch).fails.is_empty()
    };
    let repr = |f: &Fail| -> String {
        match s {
            [a] => format!("{}|alone", up(*a)),
            [a, b] => {
                if alone_fails(*a, f) {
                    format!("{}|followed-by-{}", up(*a), ctx_class(*b))
                } else if alone_fails(*b, f) {
                    format!("{}|preceded-by-{}", up(*b), ctx_class(*a))
                } else {
                    format!("{},{}", up(*a), up(*b))
                }
            }
            _ => s.iter().map(|c| up(*c)).collect::<Vec<_>>().join(","),
        }
    };
    col.report(&c, &fails, o, &repr, &|| json!({"text_code_points": s.iter().map(|c| up(*c)).collect::<Vec<_>>()}));
}

fn level_text_scalars(ctx: &Ctx, rep: &mut Report, col: &Collector, level: u64) -> Value {
    let r = ctx.par_range("text: every scalar alone, +9 following contexts, (<U+0300) 2 preceding contexts", 0x110000, 2048, st, |st, i, rep| {
        let Some(c) = char::from_u32(i as u32) else {
            rep.count("surrogate code points skipped (not scalar values)", 1);
            return;
        };
        rep.count("text scalars swept", 1);
        check_text(st, &[c], ord(level, i, 0), rep, col);
        for (k, x) in CTX.iter().enumerate() {
            check_text(st, &[c, *x], ord(level, i, 1 + k as u64), rep, col);
        }
        if i < 0x300 {
            check_text(st, &['\\', c], ord(level, i, 10), rep, col);
            check_text(st, &['"', c], ord(level, i, 11), rep, col);
        }
    });
    rep.merge(r);
    json!({"scalars": 1_112_064u64, "texts": 1_112_064u64 * 10 + 0x300 * 2, "contexts_following": CTX.iter().collect::<String>(), "contexts_preceding": "\\\" for scalars < U+0300"})
}

/// 200 scalars >= U+0250 chosen by structure (UTF-8 length boundaries, surrogate
/// neighbours, noncharacters, combining / format / bidi / variation / tag characters,
/// private use, plane boundaries).
pub fn chosen_others() -> Vec<char> {
    let ranges: [(u32, u32); 39] = [
        (0x300, 0x30f),
        (0x7fe, 0x801),
        (0x2000, 0x200f),
        (0x2028, 0x202f),
        (0x2060, 0x206f),
        (0xd7fb, 0xd7ff),
        (0xe000, 0xe002),
        (0xf8ff, 0xf900),
        (0xfdd0, 0xfdd3),
        (0xfe00, 0xfe0f),
        (0xfeff, 0xfeff),
        (0xfff0, 0xffff),
        (0x10000, 0x10003),
        (0x1100, 0x1101),
        (0x1160, 0x1161),
        (0x11a8, 0x11a9),
        (0xac00, 0xac01),
        (0x378, 0x379),
        (0x600, 0x605),
        (0x61c, 0x61c),
        (0xe31, 0xe31),
        (0xe33, 0xe34),
        (0x1f1e6, 0x1f1e9),
        (0x1f3fb, 0x1f3ff),
        (0x1f600, 0x1f603),
        (0x1fffe, 0x1ffff),
        (0xe0000, 0xe0001),
        (0xe0020, 0xe0023),
        (0xe007f, 0xe007f),
        (0xe0100, 0xe0103),
        (0xe01ef, 0xe01f1),
        (0xf0000, 0xf0001),
        (0xffffd, 0xfffff),
        (0x100000, 0x100001),
        (0x10fffd, 0x10ffff),
        (0x900, 0x903),
        (0x93c, 0x94d),
        (0x3000, 0x3001),
        (0x3099, 0x309a),
    ];
    let mut v: Vec<char> = vec![];
    for (lo, hi) in ranges {
        for cp in lo..=hi {
            if let Some(c) = char::from_u32(cp) {
                if cp >= 0x250 && !v.contains(&c) {
                    v.push(c);
                }
            }
        }
    }
    let mut pad = 0xff00u32;
    while v.len() < 200 {
        let c = char::from_u32(pad).unwrap();
        if !v.contains(&c) {
            v.push(c);
        }
        pad += 1;
    }
    v.truncate(200);
    v
}

fn level_text_pairs(ctx: &Ctx, rep: &mut Report, col: &Collector, level: u64) -> Value {
    let mut set: Vec<char> = (0..0x250u32).filter_map(char::from_u32).collect();
    set.extend(chosen_others());
    let n = set.len() as u64;
    let r = ctx.par_range("text: all ordered pairs over scalars < U+0250 plus 200 chosen others", n * n, 4096, st, |st, i, rep| {
        let a = set[(i / n) as usize];
        let b = set[(i % n) as usize];
        check_text(st, &[a, b], ord(level, i, 0), rep, col);
    });
    rep.merge(r);
    json!({"alphabet": n, "texts": n * n, "chosen_others": chosen_others().iter().map(|c| format!("{:X}", *c as u32)).collect::<Vec<_>>().join(" ")})
}

// ---------------------------------------------------------------------------------------
// level: blobs

fn check_blob(st: &St, b: &[u8], as_vec: bool, o: u64, rep: &mut Report, col: &Collector) {
    let mk = |b: &[u8]| -> IDLArgs {
        if as_vec {
            IDLArgs { args: vec![IDLValue::Vec(b.iter().map(|x| IDLValue::Nat8(*x)).collect())] }
        } else {
            IDLArgs { args: vec![IDLValue::Blob(b.to_vec())] }
        }
    };
    let args = mk(b);
    let pos = if as_vec { "vec-nat8" } else { "blob" };
    let c = Case { pos, args: &args, tys: &st.blob_tys, nontrivial_hint: false };
    let fails = check(&c, &st.env, rep);
    if fails.is_empty() {
        return;
    }
    let alone_fails = |x: u8, f: &Fail| -> bool {
        let a = mk(&[x]);
        let mut scratch = Report::new();
        !roundtrip(f.printer, f.form, &a, &st.blob_tys, &st.env, &mut scratch).fails.is_empty()
    };
    let repr = |f: &Fail| -> String {
        match b {
            [] => "empty".to_string(),
            [a] => format!("byte={a:02x}|alone"),
            [a, x] => {
                if alone_fails(*a, f) {
                    format!("byte={a:02x}|followed-by-{}", ctx_class(*x as char))
                } else if alone_fails(*x, f) {
                    format!("byte={x:02x}|preceded-by-{}", ctx_class(*a as char))
                } else {
                    format!("bytes={a:02x}{x:02x}")
                }
            }
            _ => format!("bytes={}", hex::encode(b)),
        }
    };
    col.report(&c, &fails, o, &repr, &|| json!({"bytes": hex::encode(b)}));
}

fn level_blobs(ctx: &Ctx, rep: &mut Report, col: &Collector, level: u64) -> Value {
    let total = 1 + 256 + 65536u64;
    let r = ctx.par_range("blob: all byte strings of length 0, 1, 2 as Blob and as Vec of Nat8", total, 512, st, |st, i, rep| {
        let bytes: Vec<u8> = if i == 0 {
            vec![]
        } else if i <= 256 {
            vec![(i - 1) as u8]
        } else {
            let k = i - 257;
            vec![(k >> 8) as u8, (k & 0xff) as u8]
        };
        check_blob(st, &bytes, false, ord(level, i, 0), rep, col);
        check_blob(st, &bytes, true, ord(level, i, 1), rep, col);
    });
    rep.merge(r);
    json!({"byte_strings": total, "values": total * 2, "note": "length 2 is complete (65536), which contains every byte followed by each byte of 0aFu{}\"\\'"})
}

// ---------------------------------------------------------------------------------------
// small explicit levels

pub struct Small {
    pos: &'static str,
    repr: String,
    args: IDLArgs,
    tys: Vec<Type>,
    hint: bool,
}

fn small1(pos: &'static str, repr: String, v: IDLValue, hint: bool) -> Small {
    let t = v.value_ty();
    Small { pos, repr, args: IDLArgs { args: vec![v] }, tys: vec![t], hint }
}
fn small1_at(pos: &'static str, repr: String, v: IDLValue, t: Type, hint: bool) -> Small {
    Small { pos, repr, args: IDLArgs { args: vec![v] }, tys: vec![t], hint }
}

fn run_small(ctx: &Ctx, rep: &mut Report, col: &Collector, level: u64, name: &str, build: fn() -> Vec<Small>) -> u64 {
    let total = build().len() as u64;
    let r = ctx.par_range(name, total, 16, || (build(), TypeEnv::new()), |(cases, env), i, rep| {
        let s = &cases[i as usize];
        let c = Case { pos: s.pos, args: &s.args, tys: &s.tys, nontrivial_hint: s.hint };
        let fails = check(&c, env, rep);
        if i < 2 {
            rep.sample(json!({"pos": s.pos, "case": s.repr, "display": catch(|| format!("{}", s.args)).ok(), "debug": catch(|| format!("{:?}", s.args)).ok()}));
        }
        // numbers are keyed by the number alone; the kept representative is its first context
        let key_repr = if s.pos == "number" || s.pos == "float" { s.repr.split('@').next().unwrap_or("").to_string() } else { s.repr.clone() };
        col.report(&c, &fails, ord(level, i, 0), &|_| key_repr.clone(), &|| json!({"case": s.repr}));
    });
    rep.merge(r);
    total
}

// ---- labels

pub const LEXER_KEYWORDS: [&str; 16] = [
    "null", "vec", "record", "variant", "func", "service", "oneway", "query", "composite_query", "blob", "type", "import", "opt",
    "principal", "true", "false",
];
pub const TYPE_WORDS: [&str; 18] = [
    "nat", "nat8", "nat16", "nat32", "nat64", "int", "int8", "int16", "int32", "int64", "float32", "float64", "bool", "text",
    "reserved", "empty", "unknown", "future",
];
pub const ODD_NAMES: [&str; 52] = [
    "_", "a", "a_b", "a b", "a-b", "1a", "\"", "\\", "é", "😀", "", "a\nb", "42", "\0", "a\0", "a\01", "'", "\t", " ", "a\u{301}",
    "\u{301}", "\u{7f}", "0x2a", "1_000", "+1", "-1", "1.5", "a.b", "=", ";", "{", "}", "(", ")", ":", ",", "//", "/*", "*/",
    "a//b", "A", "Z9", "_0", "__", "true_", "nullx", "Null", "TRUE", "\u{feff}", "\u{202e}", "a\rb", "\u{10ffff}",
];

fn label_repr(l: &Label) -> String {
    match l {
        Label::Named(s) => format!("Named:{}", key_str(s)),
        Label::Id(n) => format!("Id:{n}"),
        Label::Unnamed(n) => format!("Unnamed:{n}"),
    }
}

fn label_positions(l: &Label, shape: &str, out: &mut Vec<Small>) {
    let r = format!("label={}{}", label_repr(l), shape);
    let hint = true;
    out.push(small1("record-label", r.clone(), rec(vec![(l.clone(), IDLValue::Nat8(7))]), hint));
    if l.get_id() != refmodel::hash::idl_hash("zz") {
        out.push(small1("record-label-of-two", r.clone(), rec(vec![(l.clone(), IDLValue::Nat8(7)), (named("zz"), text("v"))]), hint));
    }
    out.push(small1("variant-unit-label", r.clone(), var(l.clone(), IDLValue::Null), hint));
    out.push(small1("variant-payload-label", r.clone(), var(l.clone(), IDLValue::Nat8(7)), hint));
    if let Label::Named(s) = l {
        out.push(small1("func-name", r, IDLValue::Func(princ(&[0xab, 0xcd, 0x01]), s.clone()), hint));
    }
}

pub fn label_list() -> Vec<Label> {
    let mut ls: Vec<Label> = vec![];
    for s in LEXER_KEYWORDS.iter().chain(TYPE_WORDS.iter()).chain(ODD_NAMES.iter()) {
        ls.push(named(s));
    }
    // ids of every decimal length (the printers group digits), at the group boundaries
    for n in [
        0u32, 1, 2, 4294967295, refmodel::hash::idl_hash("a"), 42, 999, 1000, 1234, 12345, 99999, 100000, 123456, 999999, 1000000, 1234567, 12345678, 99999999,
        100000000, 123456789, 999999999, 1000000000,
    ] {
        ls.push(Label::Id(n));
        ls.push(Label::Unnamed(n));
    }
    ls
}

fn build_labels() -> Vec<Small> {
    let mut out = vec![];
    for l in label_list() {
        label_positions(&l, "", &mut out);
    }
    out
}

// ---- numbers

fn number_contexts(pos: &'static str, r: &str, v: IDLValue, out: &mut Vec<Small>) {
    let hint = false;
    out.push(small1(pos, format!("{r}@top"), v.clone(), hint));
    out.push(small1(pos, format!("{r}@opt"), opt(v.clone()), hint));
    out.push(small1(pos, format!("{r}@vec2"), IDLValue::Vec(vec![v.clone(), v.clone()]), hint));
    out.push(small1(pos, format!("{r}@record-field"), rec(vec![(named("a"), v.clone())]), hint));
    out.push(small1(pos, format!("{r}@tuple-field"), rec(vec![(Label::Id(0), v.clone())]), hint));
    out.push(small1(pos, format!("{r}@variant-payload"), var(named("a"), v), hint));
}

fn build_numbers() -> Vec<Small> {
    let mut out = vec![];
    let mut nats: BTreeSet<BigUint> = BTreeSet::new();
    let mut ints: BTreeSet<BigInt> = BTreeSet::new();
    for k in 0..=130u32 {
        for d in -1i32..=1 {
            let x = (BigInt::from(1) << k) + d;
            if x >= BigInt::from(0) {
                nats.insert(x.to_biguint().unwrap());
            }
            ints.insert(x.clone());
            ints.insert(-x);
        }
    }
    // digit-grouping boundaries
    for x in [9u64, 10, 99, 100, 999, 1000, 9999, 10000, 99999, 100000, 999999, 1000000, 1234567] {
        nats.insert(BigUint::from(x));
        ints.insert(BigInt::from(x));
        ints.insert(-BigInt::from(x));
    }
    for n in nats {
        let r = format!("nat:{n}");
        number_contexts("number", &r, IDLValue::Nat(Nat(n)), &mut out);
    }
    for i in ints {
        let r = format!("int:{i}");
        number_contexts("number", &r, IDLValue::Int(Int(i)), &mut out);
    }
    let group: [i128; 14] = [0, 1, -1, 9, 10, 99, 100, 999, 1000, -999, -1000, 12345, -12345, 1234567];
    macro_rules! fixed {
        ($t:ty, $c:path, $name:expr) => {{
            let mut xs: BTreeSet<$t> = BTreeSet::new();
            xs.insert(<$t>::MIN);
            xs.insert(<$t>::MAX);
            xs.insert(<$t>::MIN + 1);
            xs.insert(<$t>::MAX - 1);
            for g in group {
                if let Ok(x) = <$t>::try_from(g) {
                    xs.insert(x);
                }
            }
            for x in xs {
                number_contexts("number", &format!("{}:{}", $name, x), $c(x), &mut out);
            }
        }};
    }
    fixed!(u8, IDLValue::Nat8, "nat8");
    fixed!(u16, IDLValue::Nat16, "nat16");
    fixed!(u32, IDLValue::Nat32, "nat32");
    fixed!(u64, IDLValue::Nat64, "nat64");
    fixed!(i8, IDLValue::Int8, "int8");
    fixed!(i16, IDLValue::Int16, "int16");
    fixed!(i32, IDLValue::Int32, "int32");
    fixed!(i64, IDLValue::Int64, "int64");
    out
}

pub fn float64_list() -> Vec<f64> {
    let mut v: Vec<f64> = vec![
        0.0,
        -0.0,
        1.5,
        -1.5,
        1e-40,
        f32::MAX as f64,
        f32::MIN_POSITIVE as f64,
        f64::MAX,
        f64::MIN,
        f64::MIN_POSITIVE,
        -f64::MIN_POSITIVE,
        f64::from_bits(1),
        f64::from_bits(0x000f_ffff_ffff_ffff),
        f64::EPSILON,
        1.0 - f64::EPSILON / 2.0,
        1.0 + f64::EPSILON,
        1e15,
        1e16,
        1e17,
        1e21,
        1e22,
        1e23,
        123456789.125,
        3.0,
        -3.0,
        1.0,
        10.0,
        1e100,
        1e300,
        1e-300,
        1e-7,
        0.1,
        0.2,
        0.3,
        0.1 + 0.2,
        1.0 / 3.0,
        2.0 / 3.0,
        9007199254740992.0,
        9007199254740994.0,
        9223372036854775808.0,
        18446744073709551616.0,
        4294967296.0,
        999999999999999.9,
        0.5,
        0.25,
        1e-5,
        123456.789e3,
        std::f64::consts::PI,
        std::f64::consts::E,
        5e-324,
        2.2250738585072011e-308,
        1.7976931348623157e308,
        8.5,
        1e7,
        12345678.9,
    ];
    // every power of two of the format and its two neighbours
    for k in -1074..=1023i32 {
        let x = if k >= -1022 { f64::from_bits(((k + 1023) as u64) << 52) } else { f64::from_bits(1u64 << (k + 1074)) };
        v.push(x);
        v.push(f64::from_bits(x.to_bits() + 1));
        if x.to_bits() > 0 {
            v.push(f64::from_bits(x.to_bits() - 1));
        }
        v.push(-x);
    }
    // every power of ten
    for k in -323..=308i32 {
        if let Ok(x) = format!("1e{k}").parse::<f64>() {
            v.push(x);
            v.push(-x);
        }
    }
    let mut seen = BTreeSet::new();
    v.retain(|x| x.is_finite() && seen.insert(x.to_bits()));
    v
}

pub fn float32_list() -> Vec<f32> {
    let mut v: Vec<f32> = float64_list().iter().map(|x| *x as f32).collect();
    v.extend([
        f32::MAX,
        f32::MIN,
        f32::MIN_POSITIVE,
        f32::from_bits(1),
        f32::from_bits(0x007f_ffff),
        f32::EPSILON,
        16777216.0,
        16777218.0,
        0.1,
        0.2,
        0.3,
        1.0 / 3.0,
        3.4028235e38,
        1e-45,
        1.17549435e-38,
        8388608.0,
        8388609.0,
        123456.79,
        // the classic double-rounding witness (decimal -> binary64 -> binary32)
        7.038531e-26,
        -7.038531e-26,
    ]);
    for k in -149..=127i32 {
        let x = if k >= -126 { f32::from_bits(((k + 127) as u32) << 23) } else { f32::from_bits(1u32 << (k + 149)) };
        v.push(x);
        v.push(f32::from_bits(x.to_bits() + 1));
        if x.to_bits() > 0 {
            v.push(f32::from_bits(x.to_bits() - 1));
        }
        v.push(-x);
    }
    for k in -45..=38i32 {
        if let Ok(x) = format!("1e{k}").parse::<f32>() {
            v.push(x);
            v.push(-x);
        }
    }
    let mut seen = BTreeSet::new();
    v.retain(|x| x.is_finite() && seen.insert(x.to_bits()));
    v
}

fn build_floats() -> Vec<Small> {
    let mut out = vec![];
    for x in float64_list() {
        number_contexts("float", &format!("float64:bits={:016x}", x.to_bits()), IDLValue::Float64(x), &mut out);
    }
    for x in float32_list() {
        number_contexts("float", &format!("float32:bits={:08x}", x.to_bits()), IDLValue::Float32(x), &mut out);
    }
    out
}

// ---- structure

const VEC_LENS: [usize; 8] = [0, 1, 2, 9, 10, 11, 12, 100];

fn leaves() -> Vec<(&'static str, IDLValue)> {
    vec![
        ("nat", nat(1000)),
        ("nat8", IDLValue::Nat8(7)),
        ("text", text("é\n\"q\\")),
        ("bool", IDLValue::Bool(true)),
        ("float64", IDLValue::Float64(1.5)),
        ("null", IDLValue::Null),
        ("none", IDLValue::None),
        ("reserved", IDLValue::Reserved),
        ("unit-variant-a", var(named("a"), IDLValue::Null)),
        ("empty-record", rec(vec![])),
        ("blob", IDLValue::Blob(vec![0, 0x41, 0xff])),
        ("principal", IDLValue::Principal(princ(&[4]))),
        ("func", IDLValue::Func(princ(&[]), "m".to_string())),
    ]
}

fn nest(d: usize, leaf: IDLValue, f: &dyn Fn(usize, IDLValue) -> IDLValue) -> IDLValue {
    let mut v = leaf;
    for i in 0..d {
        v = f(i, v);
    }
    v
}

fn build_structure() -> Vec<Small> {
    let mut out = vec![];
    let p = "structure";
    // --- vectors around the 10-element threshold, alone and inside record / opt
    type Elem = (&'static str, Type, Box<dyn Fn(usize) -> IDLValue>);
    let ab_ty = || t_rec(vec![(named("a"), ty(TypeInner::Nat)), (named("b"), ty(TypeInner::Text))]);
    let tup_ty = || t_rec(vec![(Label::Id(0), ty(TypeInner::Nat8)), (Label::Id(1), ty(TypeInner::Text))]);
    let elems: Vec<Elem> = vec![
        ("nat8", ty(TypeInner::Nat8), Box::new(|i| IDLValue::Nat8((i * 37 % 256) as u8))),
        ("nat", ty(TypeInner::Nat), Box::new(|i| nat(i as u64 * 1000))),
        ("text", ty(TypeInner::Text), Box::new(|i| text(&format!("t{i}\n")))),
        ("bool", ty(TypeInner::Bool), Box::new(|i| IDLValue::Bool(i % 2 == 0))),
        ("record-ab", ab_ty(), Box::new(|i| rec(vec![(named("a"), nat(i as u64)), (named("b"), text("x"))]))),
        ("tuple", tup_ty(), Box::new(|i| rec(vec![(Label::Id(0), IDLValue::Nat8(i as u8)), (Label::Id(1), text("y"))]))),
        ("opt-nat", t_opt(ty(TypeInner::Nat)), Box::new(|i| if i % 2 == 0 { IDLValue::None } else { opt(nat(i as u64)) })),
        ("vec-nat", t_vec(ty(TypeInner::Nat)), Box::new(|i| IDLValue::Vec((0..i % 3).map(|k| nat(k as u64)).collect()))),
        ("null", ty(TypeInner::Null), Box::new(|_| IDLValue::Null)),
        ("reserved", ty(TypeInner::Reserved), Box::new(|_| IDLValue::Reserved)),
    ];
    for (name, et, mk) in &elems {
        for n in VEC_LENS {
            let v = IDLValue::Vec((0..n).map(|i| mk(i)).collect());
            let vt = t_vec(et.clone());
            let hint = n > 10;
            out.push(small1_at(p, format!("vec-of-{name}:len={n}"), v.clone(), vt.clone(), hint));
            out.push(small1_at(p, format!("vec-of-{name}:len={n}@opt"), opt(v.clone()), t_opt(vt.clone()), hint));
            out.push(small1_at(
                p,
                format!("vec-of-{name}:len={n}@record-field"),
                rec(vec![(named("f"), v.clone()), (named("g"), nat(1))]),
                t_rec(vec![(named("f"), vt.clone()), (named("g"), ty(TypeInner::Nat))]),
                hint,
            ));
            // at nesting depths straddling the depth budget
            for d in [8usize, 9, 10, 11] {
                let w = nest(d, v.clone(), &|_, x| opt(x));
                let wt = nest_ty(d, vt.clone());
                out.push(small1_at(p, format!("vec-of-{name}:len={n}@opt-depth={d}"), w, wt, true));
            }
        }
    }
    // --- nesting depth 1..=13 of each constructor around each leaf
    for (lname, leaf) in leaves() {
        for d in 1..=13usize {
            let hint = d >= 9;
            out.push(small1(p, format!("opt-depth={d}:leaf={lname}"), nest(d, leaf.clone(), &|_, x| opt(x)), hint));
            out.push(small1(p, format!("record-named-depth={d}:leaf={lname}"), nest(d, leaf.clone(), &|_, x| rec(vec![(named("a"), x)])), hint));
            out.push(small1(p, format!("tuple-depth={d}:leaf={lname}"), nest(d, leaf.clone(), &|_, x| rec(vec![(Label::Id(0), x)])), hint));
            out.push(small1(
                p,
                format!("record-two-fields-depth={d}:leaf={lname}"),
                nest(d, leaf.clone(), &|_, x| rec(vec![(Label::Id(0), text("s")), (named("b"), x)])),
                hint,
            ));
            out.push(small1(p, format!("vec1-depth={d}:leaf={lname}"), nest(d, leaf.clone(), &|_, x| IDLValue::Vec(vec![x])), hint));
            out.push(small1(p, format!("vec2-depth={d}:leaf={lname}"), nest(d, leaf.clone(), &|_, x| IDLValue::Vec(vec![x.clone(), x])), hint));
            out.push(small1(p, format!("variant-depth={d}:leaf={lname}"), nest(d, leaf.clone(), &|_, x| var(named("a"), x)), hint));
            out.push(small1(
                p,
                format!("mixed-depth={d}:leaf={lname}"),
                nest(d, leaf.clone(), &|i, x| match i % 4 {
                    0 => opt(x),
                    1 => IDLValue::Vec(vec![x]),
                    2 => rec(vec![(named("r"), x)]),
                    _ => var(Label::Id(5), x),
                }),
                hint,
            ));
        }
    }
    // --- a unit variant whose tag needs quoting, just around the thresholds where Display
    //     hands over to the Debug printer (depth budget 10, more than 10 vector elements)
    let q = || var(named("a b"), IDLValue::Null);
    out.push(small1(p, "leaf=unit-variant-quoted".into(), q(), true));
    for d in [9usize, 10, 11] {
        out.push(small1(p, format!("opt-depth={d}:leaf=unit-variant-quoted"), nest(d, q(), &|_, x| opt(x)), true));
        out.push(small1(p, format!("record-named-depth={d}:leaf=unit-variant-quoted"), nest(d, q(), &|_, x| rec(vec![(named("a"), x)])), true));
    }
    for n in [10usize, 11] {
        out.push(small1(p, format!("vec-of-unit-variant-quoted:len={n}"), IDLValue::Vec((0..n).map(|_| q()).collect()), true));
    }
    // --- tuples vs records
    let f = |i: usize| -> IDLValue {
        match i % 3 {
            0 => IDLValue::Nat8(i as u8),
            1 => text("t"),
            _ => IDLValue::Bool(false),
        }
    };
    for n in 0..=4usize {
        out.push(small1(p, format!("tuple:fields=0..{n}:Id"), rec((0..n).map(|i| (Label::Id(i as u32), f(i))).collect()), false));
        out.push(small1(p, format!("tuple:fields=0..{n}:Unnamed"), rec((0..n).map(|i| (Label::Unnamed(i as u32), f(i))).collect()), false));
    }
    let idsets: [&[u32]; 10] = [&[1], &[0, 2], &[1, 2], &[0, 1, 3], &[0, 1, 2, 4], &[2], &[0, 4294967294], &[5, 6, 7], &[0, 1, 97], &[4294967294]];
    for ids in idsets {
        let r = format!("record:ids={ids:?}");
        out.push(small1(p, format!("{r}:Id"), rec(ids.iter().enumerate().map(|(i, n)| (Label::Id(*n), f(i))).collect()), false));
        out.push(small1(p, format!("{r}:Unnamed"), rec(ids.iter().enumerate().map(|(i, n)| (Label::Unnamed(*n), f(i))).collect()), false));
    }
    // named and positional mixed; idl_hash("a") = 97 sits between small ids and other names
    out.push(small1(p, "record:0,1,named-a".into(), rec(vec![(Label::Id(0), f(0)), (Label::Id(1), f(1)), (named("a"), f(2))]), false));
    out.push(small1(p, "record:named-a,named-b".into(), rec(vec![(named("a"), f(0)), (named("b"), f(1))]), false));
    out.push(small1(p, "record:named-b,Id-97".into(), rec(vec![(named("b"), f(0)), (Label::Id(97), f(1))]), false));
    // --- leaves alone
    for (lname, leaf) in leaves() {
        out.push(small1(p, format!("leaf={lname}"), leaf, false));
    }
    out.push(small1(p, "bool-false".into(), IDLValue::Bool(false), false));
    out.push(small1(p, "text-empty".into(), text(""), false));
    out
}

fn nest_ty(d: usize, t: Type) -> Type {
    let mut t = t;
    for _ in 0..d {
        t = t_opt(t);
    }
    t
}

// ---- principals

fn build_principals() -> Vec<Small> {
    let mut out = vec![];
    for len in 0..=29usize {
        let fills: Vec<Vec<u8>> =
            vec![vec![0u8; len], vec![0xffu8; len], (1..=len as u8).collect(), (0..len).map(|i| (i * 83 + 0x2d) as u8).collect()];
        let mut seen: Vec<Vec<u8>> = vec![];
        for b in fills {
            if seen.contains(&b) {
                continue;
            }
            seen.push(b.clone());
            let r = format!("principal-bytes={}", hex::encode(&b));
            out.push(small1("principal", format!("{r}:principal"), IDLValue::Principal(princ(&b)), false));
            out.push(small1("principal", format!("{r}:service"), IDLValue::Service(princ(&b)), false));
            out.push(small1("principal", format!("{r}:func.m"), IDLValue::Func(princ(&b), "m".into()), false));
            out.push(small1("principal", format!("{r}:func.quoted"), IDLValue::Func(princ(&b), "a b".into()), true));
            out.push(small1("principal", format!("{r}:opt"), opt(IDLValue::Principal(princ(&b))), false));
        }
    }
    out
}

// ---- argument sequences

fn build_args() -> Vec<Small> {
    let pool: Vec<(&'static str, IDLValue)> = vec![
        ("nat", nat(1)),
        ("text", text("a")),
        ("none", IDLValue::None),
        ("null", IDLValue::Null),
        ("reserved", IDLValue::Reserved),
        ("empty-record", rec(vec![])),
        ("unit-variant", var(named("a"), IDLValue::Null)),
        ("bool", IDLValue::Bool(true)),
        ("float64", IDLValue::Float64(1.5)),
        ("blob", IDLValue::Blob(vec![1])),
        ("opt-nat8", opt(IDLValue::Nat8(1))),
        ("vec-text", IDLValue::Vec(vec![text("x"), text("y")])),
    ];
    let mk = |ix: &[usize]| -> Small {
        let vals: Vec<IDLValue> = ix.iter().map(|i| pool[*i].1.clone()).collect();
        let tys: Vec<Type> = vals.iter().map(|v| v.value_ty()).collect();
        let r = format!("args=({})", ix.iter().map(|i| pool[*i].0).collect::<Vec<_>>().join(","));
        Small { pos: "args", repr: r, args: IDLArgs { args: vals }, tys, hint: false }
    };
    let mut out = vec![mk(&[])];
    for a in 0..pool.len() {
        out.push(mk(&[a]));
    }
    for a in 0..pool.len() {
        for b in 0..pool.len() {
            out.push(mk(&[a, b]));
        }
    }
    for a in 0..6 {
        for b in 0..6 {
            for c in 0..6 {
                out.push(mk(&[a, b, c]));
            }
        }
    }
    // long argument lists (line breaking of the Display form at width 80)
    for n in [10usize, 11, 40] {
        let ix: Vec<usize> = (0..n).map(|i| i % pool.len()).collect();
        out.push(mk(&ix));
    }
    out
}

// ---------------------------------------------------------------------------------------
// type-directed products through the reference generators and the bridge

const H_A: u32 = 97; // idl_hash("a")

fn typed_alphabet(leaves: &[Prim]) -> TyAlphabet {
    TyAlphabet {
        leaves: leaves.iter().map(|p| Ty::Prim(*p)).collect(),
        opt: true,
        vec: true,
        record_labels: vec![vec![0], vec![0, 1], vec![H_A]],
        variant_labels: vec![vec![0], vec![0, 1], vec![H_A]],
        funcs: vec![],
        services: vec![],
        func_arg_pool: 0,
    }
}

fn level_typed(ctx: &Ctx, rep: &mut Report, col: &Collector, level: u64, name: &str, leaves: &[Prim], depth: usize, fuel: isize) -> Value {
    assert_eq!(refmodel::hash::idl_hash("a"), H_A);
    let tys: Vec<Ty> = gen::terms(&typed_alphabet(leaves), depth);
    let dom = ValDomain::tiny();
    let nvals: u64 = tys.iter().map(|t| gen::values(&Env::new(), t, &dom, fuel).len() as u64).sum();
    let label = |id: u32| if id == H_A { named("a") } else { Label::Id(id) };
    let r = ctx.par_range(name, tys.len() as u64, 4, TypeEnv::new, |env, i, rep| {
        let t = &tys[i as usize];
        let rt = bridge::to_real_ty_with(t, &label);
        for (k, v) in gen::values(&Env::new(), t, &dom, fuel).iter().enumerate() {
            let built = bridge::to_idl(v, false).map_err(|e| format!("bridge: {e}")).and_then(|iv| match catch(|| iv.annotate_type(false, env, &rt)) {
                Ok(Ok(x)) => Ok(x),
                Ok(Err(e)) => Err(format!("annotate_type(false): {e}")),
                Err(e) => Err(format!("annotate_type(false) panicked: {e}")),
            });
            let iv = match built {
                Ok(x) => x,
                Err(e) => {
                    rep.count("typed: value could not be set up (not a C11 verdict)", 1);
                    if rep.notes.len() < 3 {
                        rep.notes.push(format!("typed set-up failed for {v} : {t}: {e}"));
                    }
                    continue;
                }
            };
            let args = IDLArgs { args: vec![iv] };
            let tys1 = [rt.clone()];
            let c = Case { pos: "typed-product", args: &args, tys: &tys1, nontrivial_hint: false };
            let fails = check(&c, env, rep);
            let r = format!("{v}:{t}");
            col.report(&c, &fails, ord(level, i, k as u64 & 0xff), &|_| key_str(&r), &|| json!({"model_type": t.to_string(), "model_value": v.to_string()}));
        }
    });
    rep.merge(r);
    json!({"types": tys.len(), "values": nvals, "depth": depth, "leaves": leaves.iter().map(|p| p.name()).collect::<Vec<_>>()})
}

// ---------------------------------------------------------------------------------------
// thorough: every scalar in every label position

fn level_label_sweep(ctx: &Ctx, rep: &mut Report, col: &Collector, level: u64) -> Value {
    let r = ctx.par_range("labels: every scalar alone and after 'a' in every label position", 0x110000, 1024, TypeEnv::new, |env, i, rep| {
        let Some(ch) = char::from_u32(i as u32) else { return };
        rep.count("label scalars swept", 1);
        for (si, (shape, name)) in [("alone", ch.to_string()), ("after-a", format!("a{ch}"))].into_iter().enumerate() {
            let mut cases = vec![];
            label_positions(&Label::Named(name), "", &mut cases);
            for (pi, s) in cases.iter().enumerate() {
                let c = Case { pos: s.pos, args: &s.args, tys: &s.tys, nontrivial_hint: true };
                let fails = check(&c, env, rep);
                let r = format!("label-char-class={}|{}", coarse_class(ch), shape);
                col.report(&c, &fails, ord(level, i, (si * 8 + pi) as u64), &|_| r.clone(), &|| json!({"label_char": up(ch), "shape": shape}));
            }
        }
    });
    rep.merge(r);
    json!({"scalars": 1_112_064u64, "shapes": ["c", "a c"], "positions": ["record-label", "record-label-of-two", "variant-unit-label", "variant-payload-label", "func-name"], "values": 1_112_064u64 * 2 * 5})
}

// ---------------------------------------------------------------------------------------
// thorough: every finite float32

/// Every finite float32 bit pattern. The text is produced by the real printer function
/// (`pretty::candid::value::number_to_string`, what both printers emit before
/// ` : float32`); the reading side is pre-filtered with a two-line replica of what the
/// grammar and `annotate_type` do with that token (`text.parse::<f64>()`, then `as f32`).
/// Every pattern the replica reads back differently, and every 65536th pattern regardless,
/// goes through the complete real round trip like any other case.
fn level_f32_all(ctx: &Ctx, rep: &mut Report, col: &Collector, level: u64) -> Value {
    let r = ctx.par_range(
        "float32: every finite bit pattern (real printer, replica of f64-parse + `as f32`; suspects and 1/65536 confirmed by the real round trip)",
        1 << 16,
        16,
        TypeEnv::new,
        |env, i, rep| {
            let mut suspects: Vec<u32> = vec![(i as u32) << 16];
            let scan = catch(|| {
                let mut sus = vec![];
                let mut n = 0u64;
                for lo in 0..(1u32 << 16) {
                    let bits = ((i as u32) << 16) | lo;
                    let x = f32::from_bits(bits);
                    if !x.is_finite() {
                        continue;
                    }
                    n += 1;
                    let s = candid::pretty::candid::value::number_to_string(&IDLValue::Float32(x));
                    let back = s.parse::<f64>().map(|y| (y as f32).to_bits());
                    if back != Ok(bits) {
                        sus.push(bits);
                    }
                }
                (sus, n)
            });
            match scan {
                Ok((sus, n)) => {
                    rep.count("float32 bit patterns scanned", n);
                    rep.count("float32 suspects from the replica", sus.len() as u64);
                    suspects.extend(sus);
                }
                Err(e) => {
                    // a panic of the printer: find the pattern with the real round trip
                    rep.notes.push(format!("number_to_string panicked in block {i:#x}: {e}"));
                    suspects = (0..(1u32 << 16)).map(|lo| ((i as u32) << 16) | lo).collect();
                }
            }
            suspects.dedup();
            for bits in suspects {
                let x = f32::from_bits(bits);
                if !x.is_finite() {
                    continue;
                }
                let s = small1("float", format!("float32:bits={bits:08x}"), IDLValue::Float32(x), false);
                let c = Case { pos: s.pos, args: &s.args, tys: &s.tys, nontrivial_hint: false };
                let fails = check(&c, env, rep);
                col.report(&c, &fails, ord(level, i, 0), &|_| s.repr.clone(), &|| json!({"case": s.repr}));
            }
        },
    );
    rep.merge(r);
    json!({"bit_patterns": 1u64 << 32, "finite": (1u64 << 32) - (1u64 << 25)})
}

// ---------------------------------------------------------------------------------------

pub fn run_all(ctx: &Ctx, rep: &mut Report, col: &Collector) -> Value {
    let mut scopes = serde_json::Map::new();
    // cheap explicit levels first (they name the minimal representatives), sweeps after
    let n = run_small(ctx, rep, col, 1, "labels: keyword / odd / numeric labels in every position", build_labels);
    scopes.insert("labels".into(), json!({"labels": label_list().len(), "values": n}));
    let n = run_small(ctx, rep, col, 2, "numbers: nat/int +-2^k+d (k<=130), fixed-width boundaries, 6 contexts", build_numbers);
    scopes.insert("numbers".into(), json!({"values": n}));
    let n = run_small(ctx, rep, col, 3, "floats: finite float32/float64 boundary list, all powers of 2 (+-1ulp) and of 10, 6 contexts", build_floats);
    scopes.insert("floats".into(), json!({"values": n, "float64": float64_list().len(), "float32": float32_list().len()}));
    let n = run_small(ctx, rep, col, 4, "structure: vec lengths 0,1,2,9,10,11,12,100; nesting depth 1..13; tuples vs records; leaves", build_structure);
    scopes.insert("structure".into(), json!({"values": n, "vec_lens": VEC_LENS, "depths": "1..=13"}));
    let n = run_small(ctx, rep, col, 5, "principals: every length 0..29, 4 fill patterns, principal/service/func", build_principals);
    scopes.insert("principals".into(), json!({"values": n}));
    let n = run_small(ctx, rep, col, 6, "args: argument sequences of length 0,1,2,3 and 10,11,40", build_args);
    scopes.insert("args".into(), json!({"sequences": n}));
    let leaves1 = [Prim::Null, Prim::Bool, Prim::Nat, Prim::Int8, Prim::Float64, Prim::Text, Prim::Reserved, Prim::Principal];
    let j = level_typed(ctx, rep, col, 7, "typed products: all depth<=1 types x tiny values (via bridge, annotated at the real type)", &leaves1, 1, 2);
    scopes.insert("typed_depth1".into(), j);
    let j = level_blobs(ctx, rep, col, 8);
    scopes.insert("blobs".into(), j);
    let j = level_text_scalars(ctx, rep, col, 9);
    scopes.insert("text_scalars".into(), j);
    if ctx.tier == Tier::Thorough {
        let j = level_text_pairs(ctx, rep, col, 10);
        scopes.insert("text_pairs".into(), j);
        let leaves2 = [Prim::Null, Prim::Nat, Prim::Text, Prim::Int8];
        let j = level_typed(ctx, rep, col, 11, "typed products: all depth<=2 types over {null,nat,text,int8} x tiny values", &leaves2, 2, 3);
        scopes.insert("typed_depth2".into(), j);
        let j = level_label_sweep(ctx, rep, col, 12);
        scopes.insert("label_sweep".into(), j);
        let j = level_f32_all(ctx, rep, col, 13);
        scopes.insert("float32_all".into(), j);
    }
    json!({ "scopes": Value::Object(scopes) })
}
