//! C11 — printing a value as Candid text and parsing it back returns the same value.
//! See /verif/DESIGN.md section 5 (C11) and /verif/mc/README-dev.md.
//!
//! Engine E1: finite, explicitly defined scopes enumerated completely; every element is
//! printed by the real `Display` / `Debug` impls (as `IDLArgs` and as a single
//! `IDLValue`), parsed by the real `parse_idl_args` / `parse_idl_value`, annotated by the
//! real `annotate_types(true, ..)` / `annotate_type(true, ..)` and compared with the
//! original. The oracle is the identity function, so no reference model is involved.
mod core;
mod scope;
mod sjson;

use crate::core::*;
use candid::types::value::{IDLArgs, IDLValue};
use candid::types::{Type, TypeEnv};
use mclib::engine::{finish, install_quiet_panic_hook, Ctx, Report, Tier};
use serde_json::Value;

fn parse_args() -> (Tier, Option<String>, Vec<String>) {
    let args: Vec<String> = std::env::args().collect();
    let mut tier = match std::env::var("VERIF_TIER").as_deref() {
        Ok("thorough") => Tier::Thorough,
        _ => Tier::Quick,
    };
    let mut replay = None;
    let mut rest = vec![];
    let mut i = 1;
    while i < args.len() {
        match args[i].as_str() {
            "--tier" => {
                i += 1;
                tier = if args.get(i).map(|s| s.as_str()) == Some("thorough") { Tier::Thorough } else { Tier::Quick };
            }
            "--replay" => {
                i += 1;
                replay = args.get(i).cloned();
            }
            o => rest.push(o.to_string()),
        }
        i += 1;
    }
    (tier, replay, rest)
}

fn replay(path: &str) -> i32 {
    let s = match std::fs::read_to_string(path) {
        Ok(s) => s,
        Err(e) => {
            eprintln!("cannot read {path}: {e}");
            return 2;
        }
    };
    let j: Value = match serde_json::from_str(&s) {
        Ok(j) => j,
        Err(e) => {
            eprintln!("bad json in {path}: {e}");
            return 2;
        }
    };
    let case = j.get("case").unwrap_or(&j);
    let build = || -> Result<(IDLArgs, Vec<Type>), String> {
        let vals = case.get("values").and_then(|v| v.as_array()).ok_or("case.values missing")?;
        let tys = case.get("types").and_then(|v| v.as_array()).ok_or("case.types missing")?;
        let vals: Vec<IDLValue> = vals.iter().map(sjson::value_from_json).collect::<Result<_, _>>()?;
        let tys: Vec<Type> = tys.iter().map(sjson::type_from_json).collect::<Result<_, _>>()?;
        Ok((IDLArgs { args: vals }, tys))
    };
    let (args, tys) = match build() {
        Ok(x) => x,
        Err(e) => {
            eprintln!("cannot rebuild case from {path}: {e}");
            return 2;
        }
    };
    let printer = match case.get("printer").and_then(|p| p.as_str()) {
        Some("Display") => Printer::Display,
        Some("Debug") => Printer::Debug,
        _ => {
            eprintln!("case.printer missing");
            return 2;
        }
    };
    let forms: Vec<Form> = match case.get("form").and_then(|p| p.as_str()) {
        Some("args") => vec![Form::Args],
        Some("value") => vec![Form::Value],
        _ => vec![Form::Args, Form::Value],
    };
    let want_class = j.get("key").and_then(|k| k.as_str()).and_then(|k| k.split('|').nth(3)).map(|s| s.to_string());
    let env = TypeEnv::new();
    let mut rep = Report::new();
    let mut reproduced = false;
    println!("value (structural): {}", serde_json::to_string(&case["values"]).unwrap_or_default());
    for f in forms {
        if f == Form::Value && args.args.len() != 1 {
            continue;
        }
        let t = roundtrip(printer, f, &args, &tys, &env, &mut rep);
        println!("{} / {}: printed text = {:?}", printer.name(), f.name(), t.text);
        if t.fails.is_empty() {
            println!("  round trip ok");
        }
        for (class, msg) in &t.fails {
            println!("  {class}: {msg}");
            if want_class.as_deref().map(|w| w == *class).unwrap_or(true) {
                reproduced = true;
            }
        }
    }
    if reproduced {
        println!("REPRODUCED property=C11 key={}", j.get("key").and_then(|k| k.as_str()).unwrap_or("?"));
        1
    } else {
        println!("NOT-REPRODUCED property=C11 (the recorded case now round-trips, or fails in a different class)");
        0
    }
}

fn main() {
    install_quiet_panic_hook();
    let (tier, replay_path, _rest) = parse_args();
    if let Some(path) = replay_path {
        std::process::exit(replay(&path));
    }
    // replay files are numbered per run; drop the ones of earlier runs so that none goes stale
    if let Ok(rd) = std::fs::read_dir(format!("{}/replays/C11", mclib::engine::verif_dir())) {
        for e in rd.flatten() {
            if e.path().extension().map(|x| x == "json").unwrap_or(false) {
                let _ = std::fs::remove_file(e.path());
            }
        }
    }
    let ctx = Ctx::new("C11", tier, tier.pick(120, 1200));
    let mut rep = Report::new();
    let col = Collector::default();
    let extra = scope::run_all(&ctx, &mut rep, &col);
    col.flush(&mut rep);
    let rule = "case = (value(s), the type(s) they were built at, printer in {Display, Debug}, form in {IDLArgs + parse_idl_args + annotate_types, single IDLValue + parse_idl_value + annotate_type}); \
one evaluation = one print/print-again/parse/annotate(true)/compare round trip; states = values enumerated (a handful of two-character texts occur in two families); every level enumerates its scope completely \
(levels and exact sizes under coverage.levels / coverage.scopes; the thorough float32 level scans all finite bit patterns with the real printer and a replica of the reader, \
counted under coverage.counters and not as evaluations, and sends every suspect plus one pattern per 65536 through the real round trip). Non-trivial = the printed text contains an escape, a digit-group underscore or non-ASCII text, \
or the case was built to need quoting / to cross an abbreviation threshold of the pretty printer (depth 10, 10 vector elements). \
Equality = IDLValue == with floats by bits (labels by id, variant index ignored); Blob(b) and Vec of the same Nat8 are one value.";
    let assumptions = [
        "values are well formed: record fields sorted by unique label id (as the decoder and parser produce them), vectors homogeneous, floats finite, no IDLValue::Number (parser-only)",
        "re-annotation type = the type the value was built at (type-directed levels) or value_ty() (all others); empty environment",
        "IDLValue::Vec of Nat8 and IDLValue::Blob with the same bytes are the same value (annotate at vec nat8 always yields Blob)",
    ];
    let code = finish(&ctx, rep, rule, &assumptions, extra);
    std::process::exit(code);
}
