//! Structural JSON encoding of `IDLValue` / `Type` (only the forms this check builds), so a
//! recorded case can be rebuilt exactly by `--replay` without going through the printer or
//! parser under test.
use candid::types::value::{IDLField, IDLValue, VariantValue};
use candid::types::{Field, Function, Label, Type, TypeInner};
use candid::{Int, Nat, Principal};
use serde_json::{json, Value};

fn cps(s: &str) -> Vec<u32> {
    s.chars().map(|c| c as u32).collect()
}
fn from_cps(v: &Value) -> Result<String, String> {
    let a = v.as_array().ok_or("code point array expected")?;
    let mut s = String::new();
    for x in a {
        let n = x.as_u64().ok_or("code point")? as u32;
        s.push(char::from_u32(n).ok_or("not a scalar value")?);
    }
    Ok(s)
}

pub fn label_to_json(l: &Label) -> Value {
    match l {
        Label::Named(s) => json!({"named": s, "named_cp": cps(s)}),
        Label::Id(n) => json!({"id": n}),
        Label::Unnamed(n) => json!({"unnamed": n}),
    }
}
pub fn label_from_json(v: &Value) -> Result<Label, String> {
    if let Some(cp) = v.get("named_cp") {
        return Ok(Label::Named(from_cps(cp)?));
    }
    if let Some(n) = v.get("id").and_then(|n| n.as_u64()) {
        return Ok(Label::Id(n as u32));
    }
    if let Some(n) = v.get("unnamed").and_then(|n| n.as_u64()) {
        return Ok(Label::Unnamed(n as u32));
    }
    Err(format!("bad label {v}"))
}

pub fn value_to_json(v: &IDLValue) -> Value {
    use IDLValue::*;
    match v {
        Null => json!({"k": "null"}),
        Reserved => json!({"k": "reserved"}),
        None => json!({"k": "none"}),
        Bool(b) => json!({"k": "bool", "v": b}),
        Number(s) => json!({"k": "number", "v": s}),
        Nat(n) => json!({"k": "nat", "v": n.0.to_str_radix(10)}),
        Int(n) => json!({"k": "int", "v": n.0.to_str_radix(10)}),
        Nat8(n) => json!({"k": "nat8", "v": n.to_string()}),
        Nat16(n) => json!({"k": "nat16", "v": n.to_string()}),
        Nat32(n) => json!({"k": "nat32", "v": n.to_string()}),
        Nat64(n) => json!({"k": "nat64", "v": n.to_string()}),
        Int8(n) => json!({"k": "int8", "v": n.to_string()}),
        Int16(n) => json!({"k": "int16", "v": n.to_string()}),
        Int32(n) => json!({"k": "int32", "v": n.to_string()}),
        Int64(n) => json!({"k": "int64", "v": n.to_string()}),
        Float32(f) => json!({"k": "float32", "bits": format!("{:08x}", f.to_bits()), "approx": format!("{f:e}")}),
        Float64(f) => json!({"k": "float64", "bits": format!("{:016x}", f.to_bits()), "approx": format!("{f:e}")}),
        Text(s) => json!({"k": "text", "s": s, "cp": cps(s)}),
        Opt(x) => json!({"k": "opt", "v": value_to_json(x)}),
        Vec(xs) => json!({"k": "vec", "v": xs.iter().map(value_to_json).collect::<std::vec::Vec<_>>()}),
        Blob(b) => json!({"k": "blob", "hex": hex::encode(b)}),
        Record(fs) => json!({"k": "record", "fields": fs.iter().map(|f| json!({"id": label_to_json(&f.id), "v": value_to_json(&f.val)})).collect::<std::vec::Vec<_>>()}),
        Variant(x) => json!({"k": "variant", "id": label_to_json(&x.0.id), "v": value_to_json(&x.0.val), "idx": x.1}),
        Principal(p) => json!({"k": "principal", "hex": hex::encode(p.as_slice())}),
        Service(p) => json!({"k": "service", "hex": hex::encode(p.as_slice())}),
        Func(p, m) => json!({"k": "func", "hex": hex::encode(p.as_slice()), "method": m, "method_cp": cps(m)}),
    }
}

fn princ(v: &Value) -> Result<Principal, String> {
    let h = v.get("hex").and_then(|h| h.as_str()).ok_or("hex")?;
    let b = hex::decode(h).map_err(|e| e.to_string())?;
    Principal::try_from_slice(&b).map_err(|e| e.to_string())
}

pub fn value_from_json(v: &Value) -> Result<IDLValue, String> {
    let k = v.get("k").and_then(|k| k.as_str()).ok_or_else(|| format!("no kind in {v}"))?;
    let s = || v.get("v").and_then(|x| x.as_str()).ok_or_else(|| format!("no string v in {v}"));
    macro_rules! num {
        ($t:ty, $c:path) => {
            $c(s()?.parse::<$t>().map_err(|e| e.to_string())?)
        };
    }
    Ok(match k {
        "null" => IDLValue::Null,
        "reserved" => IDLValue::Reserved,
        "none" => IDLValue::None,
        "bool" => IDLValue::Bool(v.get("v").and_then(|b| b.as_bool()).ok_or("bool")?),
        "number" => IDLValue::Number(s()?.to_string()),
        "nat" => IDLValue::Nat(Nat(s()?.parse::<num_bigint::BigUint>().map_err(|e| e.to_string())?)),
        "int" => IDLValue::Int(Int(s()?.parse::<num_bigint::BigInt>().map_err(|e| e.to_string())?)),
        "nat8" => num!(u8, IDLValue::Nat8),
        "nat16" => num!(u16, IDLValue::Nat16),
        "nat32" => num!(u32, IDLValue::Nat32),
        "nat64" => num!(u64, IDLValue::Nat64),
        "int8" => num!(i8, IDLValue::Int8),
        "int16" => num!(i16, IDLValue::Int16),
        "int32" => num!(i32, IDLValue::Int32),
        "int64" => num!(i64, IDLValue::Int64),
        "float32" => {
            let b = v.get("bits").and_then(|b| b.as_str()).ok_or("bits")?;
            IDLValue::Float32(f32::from_bits(u32::from_str_radix(b, 16).map_err(|e| e.to_string())?))
        }
        "float64" => {
            let b = v.get("bits").and_then(|b| b.as_str()).ok_or("bits")?;
            IDLValue::Float64(f64::from_bits(u64::from_str_radix(b, 16).map_err(|e| e.to_string())?))
        }
        "text" => IDLValue::Text(from_cps(v.get("cp").ok_or("cp")?)?),
        "opt" => IDLValue::Opt(Box::new(value_from_json(v.get("v").ok_or("v")?)?)),
        "vec" => IDLValue::Vec(
            v.get("v").and_then(|a| a.as_array()).ok_or("vec")?.iter().map(value_from_json).collect::<Result<_, _>>()?,
        ),
        "blob" => IDLValue::Blob(hex::decode(v.get("hex").and_then(|h| h.as_str()).ok_or("hex")?).map_err(|e| e.to_string())?),
        "record" => {
            let mut fs = vec![];
            for f in v.get("fields").and_then(|a| a.as_array()).ok_or("fields")? {
                fs.push(IDLField { id: label_from_json(f.get("id").ok_or("id")?)?, val: value_from_json(f.get("v").ok_or("v")?)? });
            }
            IDLValue::Record(fs)
        }
        "variant" => IDLValue::Variant(VariantValue(
            Box::new(IDLField { id: label_from_json(v.get("id").ok_or("id")?)?, val: value_from_json(v.get("v").ok_or("v")?)? }),
            v.get("idx").and_then(|i| i.as_u64()).unwrap_or(0),
        )),
        "principal" => IDLValue::Principal(princ(v)?),
        "service" => IDLValue::Service(princ(v)?),
        "func" => IDLValue::Func(princ(v)?, from_cps(v.get("method_cp").ok_or("method_cp")?)?),
        o => return Err(format!("unknown value kind {o}")),
    })
}

pub fn type_to_json(t: &Type) -> Value {
    let fields = |fs: &Vec<Field>| -> Vec<Value> {
        fs.iter().map(|f| json!({"id": label_to_json(&f.id), "ty": type_to_json(&f.ty)})).collect()
    };
    match t.as_ref() {
        TypeInner::Opt(x) => json!({"t": "opt", "of": type_to_json(x)}),
        TypeInner::Vec(x) => json!({"t": "vec", "of": type_to_json(x)}),
        TypeInner::Record(fs) => json!({"t": "record", "fields": fields(fs)}),
        TypeInner::Variant(fs) => json!({"t": "variant", "fields": fields(fs)}),
        TypeInner::Func(f) if f.args.is_empty() && f.rets.is_empty() && f.modes.is_empty() => json!({"t": "func"}),
        TypeInner::Service(ms) if ms.is_empty() => json!({"t": "service"}),
        TypeInner::Null => json!({"t": "null"}),
        TypeInner::Bool => json!({"t": "bool"}),
        TypeInner::Nat => json!({"t": "nat"}),
        TypeInner::Int => json!({"t": "int"}),
        TypeInner::Nat8 => json!({"t": "nat8"}),
        TypeInner::Nat16 => json!({"t": "nat16"}),
        TypeInner::Nat32 => json!({"t": "nat32"}),
        TypeInner::Nat64 => json!({"t": "nat64"}),
        TypeInner::Int8 => json!({"t": "int8"}),
        TypeInner::Int16 => json!({"t": "int16"}),
        TypeInner::Int32 => json!({"t": "int32"}),
        TypeInner::Int64 => json!({"t": "int64"}),
        TypeInner::Float32 => json!({"t": "float32"}),
        TypeInner::Float64 => json!({"t": "float64"}),
        TypeInner::Text => json!({"t": "text"}),
        TypeInner::Reserved => json!({"t": "reserved"}),
        TypeInner::Empty => json!({"t": "empty"}),
        TypeInner::Principal => json!({"t": "principal"}),
        other => json!({"t": "unsupported", "debug": format!("{other:?}")}),
    }
}

pub fn type_from_json(v: &Value) -> Result<Type, String> {
    let k = v.get("t").and_then(|k| k.as_str()).ok_or_else(|| format!("no type kind in {v}"))?;
    let fields = |v: &Value| -> Result<Vec<Field>, String> {
        let mut out = vec![];
        for f in v.get("fields").and_then(|a| a.as_array()).ok_or("fields")? {
            out.push(Field { id: label_from_json(f.get("id").ok_or("id")?)?.into(), ty: type_from_json(f.get("ty").ok_or("ty")?)? });
        }
        Ok(out)
    };
    Ok(match k {
        "opt" => TypeInner::Opt(type_from_json(v.get("of").ok_or("of")?)?),
        "vec" => TypeInner::Vec(type_from_json(v.get("of").ok_or("of")?)?),
        "record" => TypeInner::Record(fields(v)?),
        "variant" => TypeInner::Variant(fields(v)?),
        "func" => TypeInner::Func(Function { modes: vec![], args: vec![], rets: vec![] }),
        "service" => TypeInner::Service(vec![]),
        "null" => TypeInner::Null,
        "bool" => TypeInner::Bool,
        "nat" => TypeInner::Nat,
        "int" => TypeInner::Int,
        "nat8" => TypeInner::Nat8,
        "nat16" => TypeInner::Nat16,
        "nat32" => TypeInner::Nat32,
        "nat64" => TypeInner::Nat64,
        "int8" => TypeInner::Int8,
        "int16" => TypeInner::Int16,
        "int32" => TypeInner::Int32,
        "int64" => TypeInner::Int64,
        "float32" => TypeInner::Float32,
        "float64" => TypeInner::Float64,
        "text" => TypeInner::Text,
        "reserved" => TypeInner::Reserved,
        "empty" => TypeInner::Empty,
        "principal" => TypeInner::Principal,
        o => return Err(format!("unknown type kind {o}")),
    }
    .into())
}
