//! The round trip itself (print -> parse -> annotate -> compare), the comparison, and the
//! deterministic violation collector.
use crate::sjson::{type_to_json, value_to_json};
use candid::types::value::{IDLArgs, IDLValue};
use candid::types::{Type, TypeEnv};
use mclib::engine::{catch, Report};
use serde_json::{json, Value};
use std::collections::BTreeMap;
use std::sync::Mutex;

#[derive(Clone, Copy, PartialEq, Eq, PartialOrd, Ord, Debug, Hash)]
pub enum Printer {
    Display,
    Debug,
}
impl Printer {
    pub fn name(self) -> &'static str {
        match self {
            Printer::Display => "Display",
            Printer::Debug => "Debug",
        }
    }
}
#[derive(Clone, Copy, PartialEq, Eq, PartialOrd, Ord, Debug, Hash)]
pub enum Form {
    /// `IDLArgs` printed, `parse_idl_args`, `IDLArgs::annotate_types`
    Args,
    /// single `IDLValue` printed, `parse_idl_value`, `IDLValue::annotate_type`
    Value,
}
impl Form {
    pub fn name(self) -> &'static str {
        match self {
            Form::Args => "args",
            Form::Value => "value",
        }
    }
}
pub const PRINTERS: [Printer; 2] = [Printer::Display, Printer::Debug];
pub const FORMS: [Form; 2] = [Form::Args, Form::Value];

/// failure classes (part of the violation key)
pub const PRINT_PANIC: &str = "print-panic";
pub const NONDET: &str = "print-not-deterministic";
pub const PARSE_PANIC: &str = "parse-panic";
pub const PARSE_ERROR: &str = "parse-error";
/// `parse_idl_value` rejects the text of a single value, but accepts it inside parentheses
pub const NEEDS_PARENS: &str = "parse-error-unless-parenthesised";
pub const ANNOT_PANIC: &str = "annotate-panic";
pub const ANNOT_ERROR: &str = "annotate-error";
pub const DIFFERS: &str = "value-differs";
pub const FLAKY: &str = "observation-not-repeatable";

#[derive(Clone, Debug)]
pub struct Fail {
    pub printer: Printer,
    pub form: Form,
    pub class: &'static str,
    pub msg: String,
}

/// Equality demanded by the property: `IDLValue` `==` (labels by id, `VariantValue` without
/// its index), refined so that floats are compared by bits, and coarsened only in that
/// `Blob(b)` and `Vec` of the same `Nat8`s are the same value (annotating at `vec nat8`
/// always produces `Blob`).
pub fn same(a: &IDLValue, b: &IDLValue) -> bool {
    use IDLValue::*;
    match (a, b) {
        (Float32(x), Float32(y)) => x.to_bits() == y.to_bits(),
        (Float64(x), Float64(y)) => x.to_bits() == y.to_bits(),
        (Opt(x), Opt(y)) => same(x, y),
        (Vec(x), Vec(y)) => x.len() == y.len() && x.iter().zip(y.iter()).all(|(p, q)| same(p, q)),
        (Blob(x), Vec(y)) | (Vec(y), Blob(x)) => {
            x.len() == y.len() && x.iter().zip(y.iter()).all(|(p, q)| matches!(q, Nat8(n) if n == p))
        }
        (Record(x), Record(y)) => {
            x.len() == y.len() && x.iter().zip(y.iter()).all(|(p, q)| p.id == q.id && same(&p.val, &q.val))
        }
        (Variant(x), Variant(y)) => x.0.id == y.0.id && same(&x.0.val, &y.0.val),
        _ => a == b,
    }
}

fn print(p: Printer, f: Form, args: &IDLArgs) -> Result<String, String> {
    catch(|| match (p, f) {
        (Printer::Display, Form::Args) => format!("{}", args),
        (Printer::Debug, Form::Args) => format!("{:?}", args),
        (Printer::Display, Form::Value) => format!("{}", args.args[0]),
        (Printer::Debug, Form::Value) => format!("{:?}", args.args[0]),
    })
}

fn dbg_text(v: &IDLArgs) -> String {
    catch(|| format!("{v:?}")).unwrap_or_else(|e| format!("<Debug panicked: {e}>"))
}

fn clip(s: &str) -> String {
    if s.len() <= 400 {
        s.to_string()
    } else {
        let mut n = 400;
        while !s.is_char_boundary(n) {
            n -= 1;
        }
        format!("{}...({} bytes)", &s[..n], s.len())
    }
}

pub struct Trip {
    pub text: Option<String>,
    pub fails: Vec<(&'static str, String)>,
}

/// One round trip in one mode. Every call into the subject is wrapped in `catch`.
pub fn roundtrip(p: Printer, f: Form, args: &IDLArgs, tys: &[Type], env: &TypeEnv, rep: &mut Report) -> Trip {
    rep.evaluations += 1;
    rep.transitions += 2;
    let mut fails: Vec<(&'static str, String)> = vec![];
    let t1 = match print(p, f, args) {
        Ok(t) => t,
        Err(e) => return Trip { text: None, fails: vec![(PRINT_PANIC, format!("printing panicked: {e}"))] },
    };
    match print(p, f, args) {
        Ok(t2) if t2 == t1 => {}
        Ok(t2) => fails.push((NONDET, format!("printed twice: {:?} then {:?}", clip(&t1), clip(&t2)))),
        Err(e) => fails.push((NONDET, format!("second print panicked: {e}"))),
    }
    rep.transitions += 1;
    let parsed: IDLArgs = match f {
        Form::Args => match catch(|| candid_parser::parse_idl_args(&t1)) {
            Err(e) => {
                fails.push((PARSE_PANIC, format!("parse_idl_args panicked on {:?}: {e}", clip(&t1))));
                return Trip { text: Some(t1), fails };
            }
            Ok(Err(e)) => {
                fails.push((PARSE_ERROR, format!("parse_idl_args rejects {:?}: {e}", clip(&t1))));
                return Trip { text: Some(t1), fails };
            }
            Ok(Ok(a)) => a,
        },
        Form::Value => match catch(|| candid_parser::parse_idl_value(&t1)) {
            Err(e) => {
                fails.push((PARSE_PANIC, format!("parse_idl_value panicked on {:?}: {e}", clip(&t1))));
                return Trip { text: Some(t1), fails };
            }
            Ok(Ok(v)) => IDLArgs { args: vec![v] },
            Ok(Err(e)) => {
                // generic fallback: does the same text parse as a parenthesised value?
                let t = format!("({t1})");
                rep.transitions += 1;
                match catch(|| candid_parser::parse_idl_value(&t)) {
                    Ok(Ok(v)) => {
                        fails.push((NEEDS_PARENS, format!("parse_idl_value rejects {:?} ({e}) but accepts {:?}", clip(&t1), clip(&t))));
                        IDLArgs { args: vec![v] }
                    }
                    _ => {
                        fails.push((PARSE_ERROR, format!("parse_idl_value rejects {:?}: {e}", clip(&t1))));
                        return Trip { text: Some(t1), fails };
                    }
                }
            }
        },
    };
    rep.transitions += 1;
    // `annotate_types` consumes its receiver: hand the parsed arguments over instead of
    // cloning them per round trip; for the error message the text is simply parsed again
    let reparsed = |t: &str| -> String {
        match catch(|| candid_parser::parse_idl_args(t)) {
            Ok(Ok(a)) => clip(&dbg_text(&a)),
            _ => "?".to_string(),
        }
    };
    let mut parsed = Some(parsed);
    let annotated: IDLArgs = match f {
        Form::Args => match catch(|| parsed.take().unwrap().annotate_types(true, env, tys)) {
            Err(e) => {
                fails.push((ANNOT_PANIC, format!("annotate_types panicked for text {:?}: {e}", clip(&t1))));
                return Trip { text: Some(t1), fails };
            }
            Ok(Err(e)) => {
                fails.push((ANNOT_ERROR, format!("annotate_types fails for text {:?} (parsed as {}): {e}", clip(&t1), reparsed(&t1))));
                return Trip { text: Some(t1), fails };
            }
            Ok(Ok(a)) => a,
        },
        Form::Value => match catch(|| parsed.as_ref().unwrap().args[0].annotate_type(true, env, &tys[0])) {
            Err(e) => {
                fails.push((ANNOT_PANIC, format!("annotate_type panicked for text {:?}: {e}", clip(&t1))));
                return Trip { text: Some(t1), fails };
            }
            Ok(Err(e)) => {
                fails.push((ANNOT_ERROR, format!("annotate_type fails for text {:?} (parsed as {}): {e}", clip(&t1), clip(&dbg_text(parsed.as_ref().unwrap())))));
                return Trip { text: Some(t1), fails };
            }
            Ok(Ok(v)) => IDLArgs { args: vec![v] },
        },
    };
    rep.traces_validated += 1;
    let eq = annotated.args.len() == args.args.len() && annotated.args.iter().zip(args.args.iter()).all(|(a, b)| same(a, b));
    if !eq {
        fails.push((DIFFERS, format!("text {:?} reads back as {} ; original {}", clip(&t1), clip(&dbg_text(&annotated)), clip(&dbg_text(args)))));
    }
    Trip { text: Some(t1), fails }
}

pub struct Case<'a> {
    pub pos: &'static str,
    pub args: &'a IDLArgs,
    pub tys: &'a [Type],
    /// the printed text is expected to need escaping / quoting / grouping / abbreviation
    pub nontrivial_hint: bool,
}

fn nontrivial_text(t: &str) -> bool {
    !t.is_ascii() || t.contains('\\') || t.contains('_')
}

thread_local! {
    static OK_KEYS: std::cell::RefCell<std::collections::HashMap<(&'static str, Printer, Form), String>> = std::cell::RefCell::new(std::collections::HashMap::new());
}

/// `rep.outcome("<pos>:<printer>:<form>:ok")` without formatting a key per round trip
fn ok_outcome(rep: &mut Report, pos: &'static str, p: Printer, f: Form) {
    OK_KEYS.with(|m| {
        let mut m = m.borrow_mut();
        let k = m.entry((pos, p, f)).or_insert_with(|| format!("{}:{}:{}:ok", pos, p.name(), f.name()));
        match rep.outcomes.get_mut(k.as_str()) {
            Some(n) => *n += 1,
            None => {
                rep.outcomes.insert(k.clone(), 1);
            }
        }
    });
}

/// All applicable modes of one case. A failing mode is executed a second time and must
/// give the same failure classes.
pub fn check(c: &Case, env: &TypeEnv, rep: &mut Report) -> Vec<Fail> {
    rep.states += 1;
    let mut out = vec![];
    for p in PRINTERS {
        for f in FORMS {
            if f == Form::Value && c.args.args.len() != 1 {
                continue;
            }
            let t = roundtrip(p, f, c.args, c.tys, env, rep);
            if c.nontrivial_hint || t.text.as_deref().map(nontrivial_text).unwrap_or(true) {
                rep.nontrivial += 1;
            }
            if t.fails.is_empty() {
                ok_outcome(rep, c.pos, p, f);
                continue;
            }
            let mut scratch = Report::new();
            let again = roundtrip(p, f, c.args, c.tys, env, &mut scratch);
            let a: Vec<&str> = t.fails.iter().map(|x| x.0).collect();
            let b: Vec<&str> = again.fails.iter().map(|x| x.0).collect();
            if a != b {
                out.push(Fail { printer: p, form: f, class: FLAKY, msg: format!("first run {a:?}, second run {b:?}") });
            }
            for (class, msg) in t.fails {
                rep.outcome(&format!("{}:{}:{}:{}", c.pos, p.name(), f.name(), class));
                out.push(Fail { printer: p, form: f, class, msg });
            }
        }
    }
    out
}

pub fn ctor_name(v: &IDLValue) -> &'static str {
    use IDLValue::*;
    match v {
        Null => "null",
        Bool(_) => "bool",
        Number(_) => "number",
        Int(_) => "int",
        Nat(_) => "nat",
        Nat8(_) => "nat8",
        Nat16(_) => "nat16",
        Nat32(_) => "nat32",
        Nat64(_) => "nat64",
        Int8(_) => "int8",
        Int16(_) => "int16",
        Int32(_) => "int32",
        Int64(_) => "int64",
        Float32(_) => "float32",
        Float64(_) => "float64",
        Text(_) => "text",
        None => "none",
        Reserved => "reserved",
        Opt(_) => "opt",
        Vec(_) => "vec",
        Blob(_) => "blob",
        Record(_) => "record",
        Variant(_) => "variant",
        Principal(_) => "principal",
        Service(_) => "service",
        Func(..) => "func",
    }
}

/// printable, whitespace-free spelling of arbitrary text for use inside a key
pub fn key_str(s: &str) -> String {
    let mut o = String::new();
    for c in s.chars() {
        if ('\u{21}'..='\u{7e}').contains(&c) && c != '\\' && c != '|' {
            o.push(c);
        } else {
            o.push_str(&format!("\\u{{{:x}}}", c as u32));
        }
    }
    o
}

pub fn case_json(c: &Case, printer: Printer, form: &str, extra: Value) -> Value {
    let mut j = json!({
        "pos": c.pos,
        "printer": printer.name(),
        "form": form,
        "values_debug_text": dbg_text(c.args),
        "values": c.args.args.iter().map(value_to_json).collect::<Vec<_>>(),
        "types": c.tys.iter().map(type_to_json).collect::<Vec<_>>(),
        "types_text": c.tys.iter().map(|t| catch(|| t.to_string()).unwrap_or_else(|e| e)).collect::<Vec<_>>(),
    });
    if let (Value::Object(a), Value::Object(b)) = (&mut j, extra) {
        for (k, v) in b {
            a.insert(k, v);
        }
    }
    j
}

struct Entry {
    ord: u64,
    msg: String,
    case: Value,
    count: u64,
}

/// Keeps, per key, the failing case that comes first in enumeration order (so the kept
/// representative does not depend on thread scheduling) and the number of failing round
/// trips that share the key.
#[derive(Default)]
pub struct Collector {
    m: Mutex<BTreeMap<String, Entry>>,
}

impl Collector {
    pub fn add(&self, key: String, ord: u64, n: u64, mk: impl FnOnce() -> (String, Value)) {
        let mut m = self.m.lock().unwrap();
        match m.get_mut(&key) {
            Some(e) => {
                e.count += n;
                if ord < e.ord {
                    let (msg, case) = mk();
                    e.ord = ord;
                    e.msg = msg;
                    e.case = case;
                }
            }
            None => {
                let (msg, case) = mk();
                m.insert(key, Entry { ord, msg, case, count: n });
            }
        }
    }

    /// The standard way a case reports its failures: round trips that fail in the same way
    /// under both forms share one key (`form=both`); a failure whose cause is only that
    /// `parse_idl_value` wants parentheses is keyed by the root constructor alone.
    pub fn report(&self, c: &Case, fails: &[Fail], ord: u64, repr: &dyn Fn(&Fail) -> String, extra: &dyn Fn() -> Value) {
        if fails.is_empty() {
            return;
        }
        let mut groups: BTreeMap<(Printer, &'static str), Vec<&Fail>> = BTreeMap::new();
        for f in fails {
            groups.entry((f.printer, f.class)).or_default().push(f);
        }
        for ((p, class), fs) in groups {
            let form = if fs.len() >= 2 { "both" } else { fs[0].form.name() };
            let key = if class == NEEDS_PARENS {
                format!("{}|value|top-level|{}|{}", p.name(), class, ctor_name(&c.args.args[0]))
            } else {
                format!("{}|{}|{}|{}|{}", p.name(), form, c.pos, class, repr(fs[0]))
            };
            let sub = (p as u64) * 16 + (fs[0].form as u64);
            self.add(key, (ord << 8) | sub, fs.len() as u64, || {
                let msg = fs[0].msg.clone();
                (msg, case_json(c, p, form, extra()))
            });
        }
    }

    pub fn flush(self, rep: &mut Report) {
        let m = self.m.into_inner().unwrap();
        let mut v: Vec<(String, Entry)> = m.into_iter().collect();
        v.sort_by(|a, b| (a.1.ord, &a.0).cmp(&(b.1.ord, &b.0)));
        for (k, e) in v {
            let mut case = e.case;
            case["failing_round_trips_with_this_key"] = json!(e.count);
            rep.violation(&k, format!("{} [{} failing round trips share this key]", e.msg, e.count), case);
            rep.violation_count += e.count - 1;
        }
    }
}
