//! C09 — (S)LEB128 codecs of nat / int (big-number and 128-bit) are exact, in both build
//! profiles (see /verif/DESIGN.md section 5 "### C09" and /verif/mc/README-dev.md).
//!
//! Bounded-exhaustive: every byte string of the input families below is fed to every decoder
//! entry point of the subject and compared with the reference (S)LEB128 on mathematical
//! integers (`refmodel::leb`, R6); every integer of the encoder family is encoded by every
//! encoder entry point and compared with R6's minimal string.
//!
//! The same sweep is executed by a plain `--release` build of this binary
//! (`$MC_RELEASE_DIR/c09 --worker-release --tier T`); the parent merges its report.
use candid::types::leb128 as sub_leb;
use candid::types::value::{IDLArgs, IDLValue};
use candid::{Decode, Encode, Int, Nat};
use mclib::engine::{catch, finish, install_quiet_panic_hook, Ctx, Report, Tier};
use num_bigint::{BigInt, BigUint, Sign};
use num_traits::{One, Signed, ToPrimitive, Zero};
use refmodel::leb;
use serde_json::{json, Value};
use std::collections::{BTreeMap, BTreeSet};
use std::sync::Mutex;

// ------------------------------------------------------------------------------------------
// entry points
// ------------------------------------------------------------------------------------------

/// decoder entry points (index = position in `DEC`)
const DEC: [&str; 17] = [
    "Nat::decode",                 // 0  reader, unsigned
    "Int::decode",                 // 1  reader, signed
    "leb128::decode_nat",          // 2  reader, unsigned, u128 range
    "leb128::decode_int",          // 3  reader, signed, i128 range
    "Decode!(Nat)<-nat",           // 4
    "Decode!(Int)<-int",           // 5
    "Decode!(Int)<-nat",           // 6
    "Decode!(u128)<-nat",          // 7
    "Decode!(i128)<-int",          // 8
    "Decode!(i128)<-nat",          // 9
    "Decode!(Vec<Nat>)<-vec_nat",  // 10
    "Decode!(Vec<Int>)<-vec_int",  // 11
    "Decode!(Vec<Int>)<-vec_nat",  // 12
    "Decode!(BTreeMap<u8,Int>)",   // 13
    "Decode!(BTreeMap<String,Nat>)", // 14
    "IDLArgs::from_bytes<-nat",    // 15
    "IDLArgs::from_bytes<-int",    // 16
];
/// encoder entry points (index = DEC.len() + position)
const ENC: [&str; 10] = [
    "Nat::encode",
    "Int::encode",
    "leb128::encode_nat",
    "leb128::encode_int",
    "Encode!(Nat)",
    "Encode!(Int)",
    "Encode!(u128)",
    "Encode!(i128)",
    "IDLArgs::to_bytes(Nat)",
    "IDLArgs::to_bytes(Int)",
];
const NENTRY: usize = DEC.len() + ENC.len();
fn entry_name(e: usize) -> &'static str {
    if e < DEC.len() {
        DEC[e]
    } else {
        ENC[e - DEC.len()]
    }
}
fn entry_index(name: &str) -> Option<usize> {
    (0..NENTRY).find(|e| entry_name(*e) == name)
}

/// outcome classes; the first four are conforming outcomes, the rest are violations
const CLASSES: [&str; 12] = [
    "ok",                    // 0 value (and consumed length) as the reference says
    "err-unterminated",      // 1 error, reference: unterminated
    "err-out-of-range",      // 2 error, reference: value outside the host type
    "enc-ok",                // 3 encoder emitted the minimal string
    "panic",                 // 4
    "wrong-value",           // 5
    "wrong-consumed",        // 6
    "wrong-container",       // 7 companion elements of the vector / map differ
    "rejected-valid",        // 8 error where the reference defines a value (in range)
    "accepted-unterminated", // 9
    "accepted-out-of-range", // 10
    "enc-wrong-bytes",       // 11 (also encoder returned an error)
];
const NCLASS: usize = CLASSES.len();
const FIRST_BAD: usize = 4;

// message templates (written by hand from spec/Candid.md; validated against the reference
// wire decoder in `selftest_templates`)
const H_NAT: &[u8] = b"DIDL\x00\x01\x7d";
const H_INT: &[u8] = b"DIDL\x00\x01\x7c";
const H_VEC_NAT: &[u8] = b"DIDL\x01\x6d\x7d\x01\x00";
const H_VEC_INT: &[u8] = b"DIDL\x01\x6d\x7c\x01\x00";
const H_MAP_U8_INT: &[u8] = b"DIDL\x02\x6d\x01\x6c\x02\x00\x7b\x01\x7c\x01\x00";
const H_MAP_TEXT_NAT: &[u8] = b"DIDL\x02\x6d\x01\x6c\x02\x00\x71\x01\x7d\x01\x00";
const SENTINEL: u8 = 0x2a;

/// (header, bytes before x, bytes after x) for a terminated x; for an unterminated x the
/// container has one element and x is the last thing in the message.
fn template(e: usize, terminated: bool) -> (&'static [u8], &'static [u8], &'static [u8]) {
    match (e, terminated) {
        (4 | 7 | 9 | 15 | 6, _) => (H_NAT, b"", b""),
        (5 | 8 | 16, _) => (H_INT, b"", b""),
        (10 | 12, true) => (H_VEC_NAT, b"\x02", b"\x2a"),
        (10 | 12, false) => (H_VEC_NAT, b"\x01", b""),
        (11, true) => (H_VEC_INT, b"\x02", b"\x7e"),
        (11, false) => (H_VEC_INT, b"\x01", b""),
        (13, true) => (H_MAP_U8_INT, b"\x02\x05", b"\x09\x7e"),
        (13, false) => (H_MAP_U8_INT, b"\x01\x05", b""),
        (14, true) => (H_MAP_TEXT_NAT, b"\x02\x01a", b"\x01b\x2a"),
        (14, false) => (H_MAP_TEXT_NAT, b"\x01\x01a", b""),
        _ => unreachable!(),
    }
}
fn build_msg(e: usize, x: &[u8], terminated: bool, out: &mut Vec<u8>) {
    let (h, pre, post) = template(e, terminated);
    out.clear();
    out.extend_from_slice(h);
    out.extend_from_slice(pre);
    out.extend_from_slice(x);
    out.extend_from_slice(post);
}

// ------------------------------------------------------------------------------------------
// digests, numeric trait
// ------------------------------------------------------------------------------------------

struct H(u64);
impl H {
    fn new() -> H {
        H(0xcbf29ce484222325)
    }
    #[inline]
    fn b(&mut self, x: u8) {
        self.0 ^= x as u64;
        self.0 = self.0.wrapping_mul(0x100000001b3);
    }
    #[inline]
    fn u64(&mut self, x: u64) {
        for b in x.to_le_bytes() {
            self.b(b);
        }
    }
    fn fin(self) -> u64 {
        let mut z = self.0.wrapping_add(0x9e3779b97f4a7c15);
        z = (z ^ (z >> 30)).wrapping_mul(0xbf58476d1ce4e5b9);
        z = (z ^ (z >> 27)).wrapping_mul(0x94d049bb133111eb);
        z ^ (z >> 31)
    }
}

trait Num: PartialEq {
    fn feed(&self, h: &mut H);
    fn show(&self) -> String;
}
impl Num for BigUint {
    fn feed(&self, h: &mut H) {
        for d in self.iter_u64_digits() {
            h.u64(d);
        }
    }
    fn show(&self) -> String {
        self.to_string()
    }
}
impl Num for BigInt {
    fn feed(&self, h: &mut H) {
        h.b(match self.sign() {
            Sign::Minus => 2,
            Sign::NoSign => 0,
            Sign::Plus => 1,
        });
        for d in self.iter_u64_digits() {
            h.u64(d);
        }
    }
    fn show(&self) -> String {
        self.to_string()
    }
}
impl Num for u128 {
    fn feed(&self, h: &mut H) {
        h.u64(*self as u64);
        h.u64((*self >> 64) as u64);
    }
    fn show(&self) -> String {
        self.to_string()
    }
}
impl Num for i128 {
    fn feed(&self, h: &mut H) {
        (*self as u128).feed(h)
    }
    fn show(&self) -> String {
        self.to_string()
    }
}

enum Exp<'a, V> {
    Val(&'a V, Option<usize>),
    /// "unterminated" | "out-of-range"
    Err(&'static str),
}
enum Obs<V> {
    Val(V, Option<usize>),
    /// container decoded but its shape / companion elements are not the expected ones
    Shape(String),
    Err(candid::Error),
    Panic(String),
}

// ------------------------------------------------------------------------------------------
// aggregation of violations: one key per (entry, class, byte length), smallest input kept
// ------------------------------------------------------------------------------------------

#[derive(Clone, Debug)]
struct VRec {
    /// sort key; for decoders this is the literal input
    input: Vec<u8>,
    /// for encoders: the decimal integer
    label: String,
    msg: String,
    count: u64,
}
#[derive(Default)]
struct Agg {
    viol: BTreeMap<(usize, usize, usize), VRec>,
    counts: Vec<u64>, // NENTRY * NCLASS
    /// per entry: cases for which the reference defines a value
    exp_ok: Vec<u64>,
    digest: u64,
}
impl Agg {
    fn new() -> Agg {
        Agg { viol: BTreeMap::new(), counts: vec![0; NENTRY * NCLASS], exp_ok: vec![0; NENTRY], digest: 0 }
    }
    fn merge_rec(&mut self, k: (usize, usize, usize), r: VRec) {
        match self.viol.get_mut(&k) {
            None => {
                self.viol.insert(k, r);
            }
            Some(old) => {
                let c = old.count + r.count;
                if r.input < old.input {
                    *old = r;
                }
                old.count = c;
            }
        }
    }
    fn merge(&mut self, o: &mut Agg) {
        for (k, r) in std::mem::take(&mut o.viol) {
            self.merge_rec(k, r);
        }
        for (a, b) in self.counts.iter_mut().zip(o.counts.iter()) {
            *a += *b;
        }
        self.digest = self.digest.wrapping_add(o.digest);
        o.digest = 0;
        for b in o.counts.iter_mut() {
            *b = 0;
        }
        for (a, b) in self.exp_ok.iter_mut().zip(o.exp_ok.iter_mut()) {
            *a += *b;
            *b = 0;
        }
    }
}

/// per-thread state; merged into the shared aggregate when the worker thread ends
struct TState<'a> {
    local: Agg,
    global: &'a Mutex<Agg>,
    buf: Vec<u8>,
    msg: Vec<u8>,
}
impl<'a> TState<'a> {
    fn new(global: &'a Mutex<Agg>) -> Self {
        TState { local: Agg::new(), global, buf: Vec::with_capacity(64), msg: Vec::with_capacity(96) }
    }
}
impl Drop for TState<'_> {
    fn drop(&mut self) {
        self.global.lock().unwrap().merge(&mut self.local);
    }
}

impl TState<'_> {
    #[inline]
    fn tally(&mut self, e: usize, class: usize, len: usize, input: &[u8], label: &dyn Fn() -> String, msg: &dyn Fn() -> String) {
        self.local.counts[e * NCLASS + class] += 1;
        if class >= FIRST_BAD {
            let k = (e, class, len);
            match self.local.viol.get_mut(&k) {
                None => {
                    self.local.viol.insert(k, VRec { input: input.to_vec(), label: label(), msg: msg(), count: 1 });
                }
                Some(r) => {
                    r.count += 1;
                    if input < &r.input[..] {
                        r.input = input.to_vec();
                        r.label = label();
                        r.msg = msg();
                    }
                }
            }
        }
    }

    /// compare one observation with the reference; returns the class index
    /// (`keylen` = length of the (S)LEB128 string under test inside input `s`)
    fn judge<V: Num>(&mut self, e: usize, s: &[u8], keylen: usize, exp: Exp<V>, obs: Obs<V>, rep: &mut Report) -> usize {
        rep.evaluations += 1;
        rep.transitions += 1;
        rep.traces_validated += 1;
        let mut h = H::new();
        h.b(e as u8);
        h.u64(s.len() as u64);
        for b in s {
            h.b(*b);
        }
        match &obs {
            Obs::Val(v, c) => {
                h.b(1);
                v.feed(&mut h);
                h.u64(c.map(|c| c as u64 + 1).unwrap_or(0));
            }
            Obs::Shape(_) => h.b(2),
            Obs::Err(_) => h.b(3),
            Obs::Panic(_) => h.b(4),
        }
        self.local.digest = self.local.digest.wrapping_add(h.fin());
        if matches!(exp, Exp::Val(..)) {
            rep.nontrivial += 1;
            self.local.exp_ok[e] += 1;
        }
        let class = match (&exp, &obs) {
            (_, Obs::Panic(_)) => 4,
            (Exp::Val(ev, ec), Obs::Val(ov, oc)) => {
                if *ev != ov {
                    5
                } else if ec != oc {
                    6
                } else {
                    0
                }
            }
            (Exp::Val(..), Obs::Shape(_)) => 7,
            (Exp::Val(..), Obs::Err(_)) => 8,
            (Exp::Err(r), Obs::Val(..)) | (Exp::Err(r), Obs::Shape(_)) => {
                if *r == "unterminated" {
                    9
                } else {
                    10
                }
            }
            (Exp::Err(r), Obs::Err(_)) => {
                if *r == "unterminated" {
                    1
                } else {
                    2
                }
            }
        };
        let msg = || {
            let exp_s = match &exp {
                Exp::Val(v, c) => match c {
                    Some(c) => format!("Ok({}) consuming {} byte(s)", v.show(), c),
                    None => format!("Ok({})", v.show()),
                },
                Exp::Err(r) => format!("Err ({r})"),
            };
            let obs_s = match &obs {
                Obs::Val(v, c) => match c {
                    Some(c) => format!("Ok({}) consuming {} byte(s)", v.show(), c),
                    None => format!("Ok({})", v.show()),
                },
                Obs::Shape(s) => format!("Ok with unexpected container: {s}"),
                Obs::Err(e) => format!("Err({})", err_text(e)),
                Obs::Panic(p) => format!("PANIC {p}"),
            };
            format!("{} on LEB bytes {}: reference says {}, subject gave {}", entry_name(e), hex::encode(s), exp_s, obs_s)
        };
        self.tally(e, class, keylen, s, &String::new, &msg);
        class
    }
}

/// the whole context chain of the error on one line (root cause last), shortened from the left
fn err_text(e: &candid::Error) -> String {
    let t = format!("{e:#}").split_whitespace().collect::<Vec<_>>().join(" ");
    let n = t.chars().count();
    if n > 240 {
        format!("...{}", t.chars().skip(n - 240).collect::<String>())
    } else {
        t
    }
}

// ------------------------------------------------------------------------------------------
// proposed fix for types/leb128.rs (see /verif/triage/C09.md). Not part of the verdict: with
// the hidden flag `--proposed-fix` these two functions replace the subject's
// `leb128::decode_nat` / `leb128::decode_int` reader entry points, so the same sweep
// validates the patch that the triage note proposes.
// ------------------------------------------------------------------------------------------
mod proposed_fix {
    use candid::{Error, Result};
    use std::io;
    const CONTINUATION_BIT: u8 = 1 << 7;
    const SIGN_BIT: u8 = 1 << 6;

    pub fn decode_nat<R>(r: &mut R) -> Result<u128>
    where
        R: io::Read + ?Sized,
    {
        let mut result: u128 = 0;
        let mut shift: u32 = 0;
        loop {
            let mut buf = [0];
            r.read_exact(&mut buf)?;
            let low_bits = (buf[0] & !CONTINUATION_BIT) as u128;
            // the part of this group at or above bit 128 must be zero
            let fits = if shift >= 128 {
                low_bits == 0
            } else if shift + 7 > 128 {
                low_bits >> (128 - shift) == 0
            } else {
                true
            };
            if !fits {
                while buf[0] & CONTINUATION_BIT != 0 {
                    r.read_exact(&mut buf)?;
                }
                return Err(Error::msg("nat overflow"));
            }
            if shift < 128 {
                result |= low_bits << shift;
            }
            if buf[0] & CONTINUATION_BIT == 0 {
                return Ok(result);
            }
            shift = shift.saturating_add(7);
        }
    }

    pub fn decode_int<R>(r: &mut R) -> Result<i128>
    where
        R: io::Read + ?Sized,
    {
        let mut result: u128 = 0;
        let mut shift: u32 = 0;
        loop {
            let mut buf = [0];
            r.read_exact(&mut buf)?;
            let byte = buf[0];
            let low_bits = (byte & !CONTINUATION_BIT) as u128;
            let fits = if shift + 7 <= 128 {
                result |= low_bits << shift;
                true
            } else if shift < 128 {
                // (shift == 126) bits 126 and 127 are stored; the rest of the group must repeat bit 127
                let keep = 128 - shift;
                result |= (low_bits & ((1 << keep) - 1)) << shift;
                let rest = low_bits >> (keep - 1);
                rest == 0 || rest == (0x7f >> (keep - 1))
            } else {
                // pure sign extension of bit 127
                low_bits == if result >> 127 == 1 { 0x7f } else { 0 }
            };
            if !fits {
                while buf[0] & CONTINUATION_BIT != 0 {
                    r.read_exact(&mut buf)?;
                }
                return Err(Error::msg("int overflow"));
            }
            shift = shift.saturating_add(7);
            if byte & CONTINUATION_BIT == 0 {
                if shift < 128 && (byte & SIGN_BIT) == SIGN_BIT {
                    result |= !0u128 << shift;
                }
                return Ok(result as i128);
            }
        }
    }
}
static USE_PROPOSED_FIX: std::sync::atomic::AtomicBool = std::sync::atomic::AtomicBool::new(false);
fn proposed() -> bool {
    USE_PROPOSED_FIX.load(std::sync::atomic::Ordering::Relaxed)
}

// ------------------------------------------------------------------------------------------
// decoders
// ------------------------------------------------------------------------------------------

struct Oracle {
    /// number of bytes of the terminated string at the start of the input, if any
    term: Option<usize>,
    u: BigUint,
    s: BigInt,
    u_int: BigInt,
}
fn oracle(s: &[u8]) -> Oracle {
    match (leb::dec_u(s), leb::dec_s(s)) {
        (Ok((u, cu)), Ok((sv, cs))) => {
            assert_eq!(cu, cs);
            let u_int = BigInt::from(u.clone());
            Oracle { term: Some(cu), u, s: sv, u_int }
        }
        (Err(_), Err(_)) => Oracle { term: None, u: BigUint::zero(), s: BigInt::zero(), u_int: BigInt::zero() },
        _ => panic!("reference model inconsistent on {}", hex::encode(s)),
    }
}

fn read_with<V>(buf: &[u8], f: impl FnOnce(&mut &[u8]) -> candid::Result<V>) -> Obs<V> {
    let mut r: &[u8] = buf;
    let res = catch(|| f(&mut r));
    match res {
        Err(p) => Obs::Panic(p),
        Ok(Err(e)) => Obs::Err(e),
        Ok(Ok(v)) => Obs::Val(v, Some(buf.len() - r.len())),
    }
}
fn msg_with<V>(f: impl FnOnce() -> candid::Result<Result<V, String>>) -> Obs<V> {
    match catch(f) {
        Err(p) => Obs::Panic(p),
        Ok(Err(e)) => Obs::Err(e),
        Ok(Ok(Ok(v))) => Obs::Val(v, None),
        Ok(Ok(Err(shape))) => Obs::Shape(shape),
    }
}

fn exp_big<'a, V>(o: &Oracle, v: &'a V, consumed: bool) -> Exp<'a, V> {
    match o.term {
        Some(c) => Exp::Val(v, if consumed { Some(c) } else { None }),
        None => Exp::Err("unterminated"),
    }
}
fn exp_host<'a, V>(o: &Oracle, v: &'a Option<V>, consumed: bool) -> Exp<'a, V> {
    match (o.term, v) {
        (Some(c), Some(v)) => Exp::Val(v, if consumed { Some(c) } else { None }),
        (Some(_), None) => Exp::Err("out-of-range"),
        (None, _) => Exp::Err("unterminated"),
    }
}

/// Run decoder entry `e` on input `s` (`o` = reference outcome on `s`). Reader entries get
/// `s` followed by a sentinel (nothing appended when `s` is unterminated); message entries
/// get a message with exactly the terminated string `s[..term]` embedded.
fn run_decoder(st: &mut TState, rep: &mut Report, e: usize, s: &[u8], o: &Oracle) -> usize {
    use std::collections::BTreeMap as M;
    if e < 4 {
        let mut buf = std::mem::take(&mut st.buf);
        buf.clear();
        buf.extend_from_slice(s);
        if o.term.is_some() {
            buf.push(SENTINEL);
        }
        let kl = o.term.unwrap_or(s.len());
        let c = match e {
            0 => {
                let obs = read_with(&buf, |r| Nat::decode(r).map(|n| n.0));
                st.judge(e, s, kl, exp_big(o, &o.u, true), obs, rep)
            }
            1 => {
                let obs = read_with(&buf, |r| Int::decode(r).map(|n| n.0));
                st.judge(e, s, kl, exp_big(o, &o.s, true), obs, rep)
            }
            2 => {
                let obs = if proposed() { read_with(&buf, |r| proposed_fix::decode_nat(r)) } else { read_with(&buf, |r| sub_leb::decode_nat(r)) };
                let v = o.u.to_u128();
                st.judge(e, s, kl, exp_host(o, &v, true), obs, rep)
            }
            _ => {
                let obs = if proposed() { read_with(&buf, |r| proposed_fix::decode_int(r)) } else { read_with(&buf, |r| sub_leb::decode_int(r)) };
                let v = o.s.to_i128();
                st.judge(e, s, kl, exp_host(o, &v, true), obs, rep)
            }
        };
        st.buf = buf;
        return c;
    }
    let x = match o.term {
        Some(c) => &s[..c],
        None => s,
    };
    let mut m = std::mem::take(&mut st.msg);
    build_msg(e, x, o.term.is_some(), &mut m);
    let mb: &[u8] = &m;
    let unterminated = o.term.is_none();
    let c = match e {
        4 => {
            let obs = msg_with(|| Decode!(mb, Nat).map(|n| Ok(n.0)));
            st.judge(e, x, x.len(), exp_big(o, &o.u, false), obs, rep)
        }
        5 => {
            let obs = msg_with(|| Decode!(mb, Int).map(|n| Ok(n.0)));
            st.judge(e, x, x.len(), exp_big(o, &o.s, false), obs, rep)
        }
        6 => {
            let obs = msg_with(|| Decode!(mb, Int).map(|n| Ok(n.0)));
            st.judge(e, x, x.len(), exp_big(o, &o.u_int, false), obs, rep)
        }
        7 => {
            let obs = msg_with(|| Decode!(mb, u128).map(Ok));
            let v = o.u.to_u128();
            st.judge(e, x, x.len(), exp_host(o, &v, false), obs, rep)
        }
        8 => {
            let obs = msg_with(|| Decode!(mb, i128).map(Ok));
            let v = o.s.to_i128();
            st.judge(e, x, x.len(), exp_host(o, &v, false), obs, rep)
        }
        9 => {
            let obs = msg_with(|| Decode!(mb, i128).map(Ok));
            let v = o.u.to_i128();
            st.judge(e, x, x.len(), exp_host(o, &v, false), obs, rep)
        }
        10 => {
            let obs = msg_with(|| {
                Decode!(mb, Vec<Nat>).map(|mut v| {
                    if !unterminated && v.len() == 2 && v[1] == Nat::from(42u8) {
                        Ok(v.swap_remove(0).0)
                    } else {
                        Err(format!("{v:?}"))
                    }
                })
            });
            st.judge(e, x, x.len(), exp_big(o, &o.u, false), obs, rep)
        }
        11 | 12 => {
            let companion = if e == 11 { Int::from(-2) } else { Int::from(42) };
            let obs = msg_with(|| {
                Decode!(mb, Vec<Int>).map(|mut v| {
                    if !unterminated && v.len() == 2 && v[1] == companion {
                        Ok(v.swap_remove(0).0)
                    } else {
                        Err(format!("{v:?}"))
                    }
                })
            });
            let ev = if e == 11 { &o.s } else { &o.u_int };
            st.judge(e, x, x.len(), exp_big(o, ev, false), obs, rep)
        }
        13 => {
            let obs = msg_with(|| {
                Decode!(mb, M<u8, Int>).map(|mut v| {
                    if !unterminated && v.len() == 2 && v.get(&9) == Some(&Int::from(-2)) && v.contains_key(&5) {
                        Ok(v.remove(&5).unwrap().0)
                    } else {
                        Err(format!("{v:?}"))
                    }
                })
            });
            st.judge(e, x, x.len(), exp_big(o, &o.s, false), obs, rep)
        }
        14 => {
            let obs = msg_with(|| {
                Decode!(mb, M<String, Nat>).map(|mut v| {
                    if !unterminated && v.len() == 2 && v.get("b") == Some(&Nat::from(42u8)) && v.contains_key("a") {
                        Ok(v.remove("a").unwrap().0)
                    } else {
                        Err(format!("{v:?}"))
                    }
                })
            });
            st.judge(e, x, x.len(), exp_big(o, &o.u, false), obs, rep)
        }
        15 => {
            let obs = msg_with(|| {
                IDLArgs::from_bytes(mb).map(|mut a| match (a.args.len(), a.args.pop()) {
                    (1, Some(IDLValue::Nat(n))) => Ok(n.0),
                    (_, last) => Err(format!("{} args, last {last:?}", a.args.len() + 1)),
                })
            });
            st.judge(e, x, x.len(), exp_big(o, &o.u, false), obs, rep)
        }
        16 => {
            let obs = msg_with(|| {
                IDLArgs::from_bytes(mb).map(|mut a| match (a.args.len(), a.args.pop()) {
                    (1, Some(IDLValue::Int(n))) => Ok(n.0),
                    (_, last) => Err(format!("{} args, last {last:?}", a.args.len() + 1)),
                })
            });
            st.judge(e, x, x.len(), exp_big(o, &o.s, false), obs, rep)
        }
        _ => unreachable!(),
    };
    st.msg = m;
    c
}

/// All decoder entries on one input. The reader entry points always run. Message-level
/// entries run when the input is exactly one terminated string, or is unterminated; in a
/// boundary family (`family`) additionally when it is a terminated string followed by a
/// single 0x00 (so the (n-1)-byte strings of the family are embedded once, not 256 times),
/// and unterminated inputs are embedded only when their last byte is in the pattern alphabet
/// (the 128 continuation values of the last byte of an unterminated string all end at the end
/// of the message; each message-level decode costs ~2.5 us, 50x a reader call).
/// `msg_b1_listed` (families of length 18, 21, 40 in the thorough tier; a no-op for the quick
/// tier's tails): when byte n-1 is a continuation byte, message-level entries run only if it is
/// one of THOROUGH_MSG_B1.
fn check_input(st: &mut TState, rep: &mut Report, s: &[u8], family: bool, msg_b1_listed: bool) {
    rep.states += 1;
    let o = oracle(s);
    for e in 0..4 {
        run_decoder(st, rep, e, s, &o);
    }
    let mut msg_level = match o.term {
        None => !family || s.last().map(|b| ALPHA.contains(b)).unwrap_or(true),
        Some(c) => c == s.len() || (family && c + 1 == s.len() && s[c] == 0),
    };
    if msg_b1_listed && s.len() >= 2 {
        let b1 = s[s.len() - 2];
        if b1 >= 0x80 && !THOROUGH_MSG_B1.contains(&b1) {
            msg_level = false;
        }
    }
    if msg_level {
        for e in 4..DEC.len() {
            run_decoder(st, rep, e, s, &o);
        }
    }
}

// ------------------------------------------------------------------------------------------
// encoders
// ------------------------------------------------------------------------------------------

fn with_header(h: &[u8], body: Vec<u8>) -> Vec<u8> {
    let mut v = h.to_vec();
    v.extend(body);
    v
}

/// Run encoder entry `e` (index into ENC) on integer `v`; None = entry not applicable.
fn run_encoder(st: &mut TState, rep: &mut Report, e: usize, v: &BigInt) -> Option<usize> {
    let nonneg = !v.is_negative();
    let mag = v.magnitude().clone();
    let (expected, observed): (Vec<u8>, Result<candid::Result<Vec<u8>>, String>) = match e {
        0 if nonneg => (leb::enc_u(&mag), catch(|| {
            let mut w = vec![];
            Nat(mag.clone()).encode(&mut w).map(|_| w)
        })),
        1 => (leb::enc_s(v), catch(|| {
            let mut w = vec![];
            Int(v.clone()).encode(&mut w).map(|_| w)
        })),
        2 if nonneg && v.to_u128().is_some() => {
            let x = v.to_u128().unwrap();
            (leb::enc_u(&mag), catch(|| {
                let mut w = vec![];
                sub_leb::encode_nat(&mut w, x).map(|_| w)
            }))
        }
        3 if v.to_i128().is_some() => {
            let x = v.to_i128().unwrap();
            (leb::enc_s(v), catch(|| {
                let mut w = vec![];
                sub_leb::encode_int(&mut w, x).map(|_| w)
            }))
        }
        4 if nonneg => (with_header(H_NAT, leb::enc_u(&mag)), catch(|| Encode!(&Nat(mag.clone())))),
        5 => (with_header(H_INT, leb::enc_s(v)), catch(|| Encode!(&Int(v.clone())))),
        6 if nonneg && v.to_u128().is_some() => {
            let x = v.to_u128().unwrap();
            (with_header(H_NAT, leb::enc_u(&mag)), catch(|| Encode!(&x)))
        }
        7 if v.to_i128().is_some() => {
            let x = v.to_i128().unwrap();
            (with_header(H_INT, leb::enc_s(v)), catch(|| Encode!(&x)))
        }
        8 if nonneg => (with_header(H_NAT, leb::enc_u(&mag)), catch(|| IDLArgs::new(&[IDLValue::Nat(Nat(mag.clone()))]).to_bytes())),
        9 => (with_header(H_INT, leb::enc_s(v)), catch(|| IDLArgs::new(&[IDLValue::Int(Int(v.clone()))]).to_bytes())),
        _ => return None,
    };
    rep.evaluations += 1;
    rep.transitions += 1;
    rep.traces_validated += 1;
    rep.nontrivial += 1;
    let ge = DEC.len() + e;
    let (class, tag): (usize, u8) = match &observed {
        Err(_) => (4, 4),
        Ok(Err(_)) => (11, 3),
        Ok(Ok(b)) if *b == expected => (3, 1),
        Ok(Ok(_)) => (11, 1),
    };
    let mut h = H::new();
    h.b(ge as u8);
    v.feed(&mut h);
    h.b(tag);
    if let Ok(Ok(b)) = &observed {
        for x in b {
            h.b(*x);
        }
    }
    st.local.digest = st.local.digest.wrapping_add(h.fin());
    // sort key: magnitude (fixed width, big endian), then sign
    let mut sk = vec![0u8; 32];
    let mb = mag.to_bytes_be();
    sk[32 - mb.len()..].copy_from_slice(&mb);
    sk.push(if nonneg { 0 } else { 1 });
    let msg = || {
        let obs_s = match &observed {
            Err(p) => format!("PANIC {p}"),
            Ok(Err(er)) => format!("Err({})", err_text(er)),
            Ok(Ok(b)) => hex::encode(b),
        };
        format!("{} on integer {}: reference string {}, subject gave {}", entry_name(ge), v, hex::encode(&expected), obs_s)
    };
    let body_len = expected.len() - if e >= 4 { H_NAT.len() } else { 0 };
    st.tally(ge, class, body_len, &sk, &|| v.to_string(), &msg);
    Some(class)
}

/// all integers ±2^k + d, d in -2..=2, k <= 200
fn encoder_values() -> Vec<BigInt> {
    let mut set = BTreeSet::new();
    for k in 0..=200u32 {
        let p = BigInt::one() << k;
        for sign in [1i32, -1] {
            for d in -2i32..=2 {
                set.insert(&p * sign + d);
            }
        }
    }
    set.into_iter().collect()
}

// ------------------------------------------------------------------------------------------
// input families
// ------------------------------------------------------------------------------------------

const ALPHA: [u8; 5] = [0x80, 0xff, 0x81, 0xc0, 0xbf];
const FAMILY_LENGTHS: [usize; 10] = [7, 8, 9, 10, 11, 18, 19, 20, 21, 40];
/// quick tier: values of the last-but-one byte of a boundary family (the last byte takes all 256)
const QUICK_B1: [u8; 16] = [0x00, 0x01, 0x02, 0x03, 0x04, 0x3e, 0x3f, 0x40, 0x41, 0x7c, 0x7d, 0x7e, 0x7f, 0x80, 0xfe, 0xff];
/// thorough tier, families n = 18, 21, 40: continuation values of byte n-1 for which the
/// message-level entry points run (the reader entry points see all 65536 tails)
const THOROUGH_MSG_B1: [u8; 4] = [0x80, 0x81, 0xfe, 0xff];

/// quick tier: values of the last byte when byte n-1 terminates the string (the last byte is
/// then only a trailing byte after an (n-1)-byte string)
const QUICK_TRAIL: [u8; 16] = [0x00, 0x01, 0x02, 0x2a, 0x3f, 0x40, 0x41, 0x7e, 0x7f, 0x80, 0x81, 0xbf, 0xc0, 0xc1, 0xfe, 0xff];
fn quick_tails() -> Vec<(u8, u8)> {
    let mut v = vec![];
    for b1 in QUICK_B1 {
        if b1 < 0x80 {
            for b2 in QUICK_TRAIL {
                v.push((b1, b2));
            }
        } else {
            for b2 in 0..=255u8 {
                v.push((b1, b2));
            }
        }
    }
    v
}

/// run-length patterns of length m over ALPHA with at most `max_runs` runs (adjacent runs differ)
fn run_patterns(m: usize, max_runs: usize) -> Vec<Vec<u8>> {
    let mut out = vec![];
    if m == 0 {
        return vec![vec![]];
    }
    for a in ALPHA {
        out.push(vec![a; m]);
    }
    if max_runs >= 2 {
        for a in ALPHA {
            for b in ALPHA {
                if a == b {
                    continue;
                }
                for split in 1..m {
                    let mut v = vec![a; split];
                    v.extend(std::iter::repeat(b).take(m - split));
                    out.push(v);
                }
            }
        }
    }
    if max_runs >= 3 {
        for a in ALPHA {
            for b in ALPHA {
                for c in ALPHA {
                    if a == b || b == c {
                        continue;
                    }
                    for s1 in 1..m {
                        for s2 in s1 + 1..m {
                            let mut v = vec![a; s1];
                            v.extend(std::iter::repeat(b).take(s2 - s1));
                            v.extend(std::iter::repeat(c).take(m - s2));
                            out.push(v);
                        }
                    }
                }
            }
        }
    }
    out
}

/// index -> byte string, all strings of length 0..=3 in (length, lexicographic) order
fn short_string(mut i: u64, out: &mut Vec<u8>) {
    out.clear();
    if i == 0 {
        return;
    }
    i -= 1;
    if i < 256 {
        out.push(i as u8);
        return;
    }
    i -= 256;
    if i < 65536 {
        out.extend_from_slice(&[(i >> 8) as u8, i as u8]);
        return;
    }
    i -= 65536;
    out.extend_from_slice(&[(i >> 16) as u8, (i >> 8) as u8, i as u8]);
}

// ------------------------------------------------------------------------------------------
// the sweep (identical in the parent and in the release worker)
// ------------------------------------------------------------------------------------------

struct RunResult {
    rep: Report,
    agg: Agg,
    digests: BTreeMap<String, u64>,
    scope: Value,
}

fn run_all(ctx: &Ctx, only: &[String]) -> RunResult {
    let tier = ctx.tier;
    let global = Mutex::new(Agg::new());
    let mut rep = Report::new();
    let mut digests = BTreeMap::new();
    let mut scope = serde_json::Map::new();
    let wanted = |name: &str| only.is_empty() || only.iter().any(|o| name.starts_with(o.as_str()));
    let mut last_digest = 0u64;
    let mut close_level = |name: &str, r: Report, rep: &mut Report, digests: &mut BTreeMap<String, u64>| {
        rep.merge(r);
        let d = global.lock().unwrap().digest;
        digests.insert(name.to_string(), d.wrapping_sub(last_digest));
        last_digest = d;
    };

    // (i) all byte strings of length <= L
    let maxlen = tier.pick(2usize, 3usize);
    let total: u64 = (0..=maxlen).map(|l| 256u64.pow(l as u32)).sum();
    let name = format!("all-strings-len<={maxlen}");
    if wanted(&name) {
        let r = ctx.par_range(&name, total, 4096, || (TState::new(&global), Vec::with_capacity(4)), |(st, s), i, rep| {
            short_string(i, s);
            let s2 = std::mem::take(s);
            check_input(st, rep, &s2, false, false);
            *s = s2;
        });
        close_level(&name, r, &mut rep, &mut digests);
        scope.insert(name.clone(), json!({"inputs": total}));
    }

    // (ii) boundary families
    for n in FAMILY_LENGTHS {
        let name = format!("family-n={n:02}");
        if !wanted(&name) {
            continue;
        }
        let prefixes = run_patterns(n - 2, 2);
        // message-level entries see every tail at the 64-bit fast-path boundary and at the
        // 19/20-byte (128-bit) boundary; for n = 18, 21, 40 only tails whose byte n-1 is listed
        let full_msg = tier == Tier::Thorough && matches!(n, 7..=11 | 19 | 20);
        let qt = quick_tails();
        let tails: u64 = tier.pick(qt.len() as u64, 65536);
        let total = prefixes.len() as u64 * tails;
        let r = ctx.par_range(&name, total, 2048, || (TState::new(&global), Vec::with_capacity(48)), |(st, s), i, rep| {
            let p = &prefixes[(i / tails) as usize];
            let t = i % tails;
            let (b1, b2) = match tier {
                Tier::Quick => qt[t as usize],
                Tier::Thorough => ((t >> 8) as u8, t as u8),
            };
            s.clear();
            s.extend_from_slice(p);
            s.push(b1);
            s.push(b2);
            let s2 = std::mem::take(s);
            check_input(st, rep, &s2, true, !full_msg);
            *s = s2;
        });
        close_level(&name, r, &mut rep, &mut digests);
        scope.insert(name.clone(), json!({"prefix_patterns": prefixes.len(), "tails_per_prefix": tails, "inputs": total, "message_level_on_every_tail": full_msg}));
    }

    // (iii) unterminated strings of every length 1..=21
    let name = "unterminated-len-1..21";
    if wanted(name) {
        let mut inputs: Vec<Vec<u8>> = vec![];
        for l in 1..=21 {
            inputs.extend(run_patterns(l, tier.pick(2, 3)));
        }
        let r = ctx.par_range(name, inputs.len() as u64, 64, || TState::new(&global), |st, i, rep| {
            check_input(st, rep, &inputs[i as usize], false, false);
        });
        close_level(name, r, &mut rep, &mut digests);
        scope.insert(name.to_string(), json!({"inputs": inputs.len(), "max_runs": tier.pick(2, 3)}));
    }

    // encoders
    let name = "encoders";
    if wanted(name) {
        let vals = encoder_values();
        let r = ctx.par_range(name, vals.len() as u64, 32, || TState::new(&global), |st, i, rep| {
            rep.states += 1;
            for e in 0..ENC.len() {
                run_encoder(st, rep, e, &vals[i as usize]);
            }
        });
        close_level(name, r, &mut rep, &mut digests);
        scope.insert(name.to_string(), json!({"integers": vals.len()}));
    }

    let agg = global.into_inner().unwrap();
    RunResult { rep, agg, digests, scope: Value::Object(scope) }
}

// ------------------------------------------------------------------------------------------
// single-case execution (re-check before reporting, --replay)
// ------------------------------------------------------------------------------------------

/// returns (class, message) of the single case, via a throw-away state
fn run_single(kind: &str, entry: usize, input: &str) -> Result<(usize, String), String> {
    let g = Mutex::new(Agg::new());
    let mut rep = Report::new();
    let class;
    {
        let mut st = TState::new(&g);
        if kind == "decode" {
            let s = hex::decode(input).map_err(|e| e.to_string())?;
            if entry >= DEC.len() {
                return Err("not a decoder entry".into());
            }
            let o = oracle(&s);
            class = run_decoder(&mut st, &mut rep, entry, &s, &o);
        } else {
            let v: BigInt = input.parse().map_err(|_| "bad integer".to_string())?;
            if entry < DEC.len() {
                return Err("not an encoder entry".into());
            }
            class = run_encoder(&mut st, &mut rep, entry - DEC.len(), &v).ok_or("entry not applicable to value")?;
        }
    }
    let a = g.into_inner().unwrap();
    let msg = a.viol.values().next().map(|r| r.msg.clone()).unwrap_or_else(|| "conforms to the reference".into());
    Ok((class, msg))
}

#[derive(Clone, Debug)]
struct Finding {
    key: String,
    entry: String,
    class: String,
    len: usize,
    kind: String,
    input: String,
    msg: String,
    count: u64,
    rechecked: bool,
}

fn findings_of(agg: &Agg) -> Vec<Finding> {
    let mut out = vec![];
    // an entry point that rejects every input for which the reference defines a value is one
    // case ("fails on every terminated input"), not one per length
    let mut total_failure: BTreeSet<usize> = BTreeSet::new();
    for e in 0..DEC.len() {
        if agg.exp_ok[e] > 0 && agg.counts[e * NCLASS + 8] == agg.exp_ok[e] {
            total_failure.insert(e);
            let recs: Vec<&VRec> = agg.viol.iter().filter(|((e2, c, _), _)| *e2 == e && *c == 8).map(|(_, r)| r).collect();
            let first = recs.iter().min_by_key(|r| (r.input.len(), r.input.clone())).unwrap();
            let input = hex::encode(&first.input);
            let rechecked = matches!(run_single("decode", e, &input), Ok((8, _)));
            out.push(Finding {
                key: format!("{}|{}|every-terminated-input|{}", entry_name(e), CLASSES[8], input),
                entry: entry_name(e).to_string(),
                class: CLASSES[8].to_string(),
                len: first.input.len(),
                kind: "decode".into(),
                input,
                msg: format!("rejects every one of the {} embedded terminated strings, of every length; smallest: {}", agg.exp_ok[e], first.msg),
                count: recs.iter().map(|r| r.count).sum(),
                rechecked,
            });
        }
    }
    for ((e, c, len), r) in &agg.viol {
        if *c == 8 && total_failure.contains(e) {
            continue;
        }
        let kind = if *e < DEC.len() { "decode" } else { "encode" };
        let input = if kind == "decode" { hex::encode(&r.input) } else { r.label.clone() };
        // every violation is re-executed once before it is reported
        let rechecked = matches!(run_single(kind, *e, &input), Ok((c2, _)) if c2 == *c);
        let lenword = if kind == "decode" { "len" } else { "reflen" };
        out.push(Finding {
            key: format!("{}|{}|{}={}|{}", entry_name(*e), CLASSES[*c], lenword, len, input),
            entry: entry_name(*e).to_string(),
            class: CLASSES[*c].to_string(),
            len: *len,
            kind: kind.to_string(),
            input,
            msg: r.msg.clone(),
            count: r.count,
            rechecked,
        });
    }
    out
}
fn finding_json(f: &Finding) -> Value {
    json!({"key": f.key, "entry": f.entry, "class": f.class, "len": f.len, "kind": f.kind, "input": f.input, "msg": f.msg, "count": f.count, "rechecked": f.rechecked})
}
fn finding_from(v: &Value) -> Option<Finding> {
    Some(Finding {
        key: v["key"].as_str()?.to_string(),
        entry: v["entry"].as_str()?.to_string(),
        class: v["class"].as_str()?.to_string(),
        len: v["len"].as_u64()? as usize,
        kind: v["kind"].as_str()?.to_string(),
        input: v["input"].as_str()?.to_string(),
        msg: v["msg"].as_str()?.to_string(),
        count: v["count"].as_u64()?,
        rechecked: v["rechecked"].as_bool()?,
    })
}

fn class_counts(agg: &Agg) -> BTreeMap<String, u64> {
    let mut m = BTreeMap::new();
    for e in 0..NENTRY {
        for c in 0..NCLASS {
            let n = agg.counts[e * NCLASS + c];
            if n > 0 {
                m.insert(format!("{}:{}", entry_name(e), CLASSES[c]), n);
            }
        }
    }
    m
}

fn overflow_checks_enabled() -> bool {
    let x: u8 = std::hint::black_box(255);
    catch(|| std::hint::black_box(x + std::hint::black_box(1))).is_err()
}
fn profile_name() -> &'static str {
    if cfg!(debug_assertions) {
        "checked"
    } else {
        "release"
    }
}

/// the hand-written message templates must be what the reference wire decoder (R2) reads
fn selftest_templates() {
    use refmodel::val::Val;
    use refmodel::wire::{decode, Limits};
    let lim = Limits::default();
    let x = [0x85u8, 0x01]; // 133 unsigned, 133 signed (0x01 has sign bit clear)
    let nat = |n: u64| Val::nat(n);
    let int = |n: i64| Val::int(n);
    let rec = |a: Val, b: Val| Val::Record(vec![(0, a), (1, b)]);
    let expect: Vec<(usize, Val)> = vec![
        (4, nat(133)),
        (5, int(133)),
        (10, Val::Vec(vec![nat(133), nat(42)])),
        (11, Val::Vec(vec![int(133), int(-2)])),
        (13, Val::Vec(vec![rec(Val::NatN(8, 5), int(133)), rec(Val::NatN(8, 9), int(-2))])),
        (14, Val::Vec(vec![rec(Val::Text("a".into()), nat(133)), rec(Val::Text("b".into()), nat(42))])),
    ];
    let mut m = vec![];
    for (e, v) in expect {
        build_msg(e, &x, true, &mut m);
        match decode(&m, &lim) {
            Ok(d) if d.vals == vec![v.clone()] => {}
            Ok(d) => {
                eprintln!("ENGINE-ERROR: template {} decodes to {:?}, wanted {:?}", entry_name(e), d.vals, v);
                std::process::exit(2);
            }
            Err(er) => {
                eprintln!("ENGINE-ERROR: template {} rejected by reference decoder: {:?}", entry_name(e), er);
                std::process::exit(2);
            }
        }
        // the one-element (unterminated) form with a terminated x must also be well-formed
        build_msg(e, &x, false, &mut m);
        if decode(&m, &lim).is_err() {
            eprintln!("ENGINE-ERROR: one-element template {} rejected by reference decoder", entry_name(e));
            std::process::exit(2);
        }
    }
}

// ------------------------------------------------------------------------------------------
// main
// ------------------------------------------------------------------------------------------

struct Args {
    tier: Tier,
    replay: Option<String>,
    worker: bool,
    only: Vec<String>,
}
fn parse_args() -> Args {
    let args: Vec<String> = std::env::args().collect();
    let mut a = Args {
        tier: match std::env::var("VERIF_TIER").as_deref() {
            Ok("thorough") => Tier::Thorough,
            _ => Tier::Quick,
        },
        replay: None,
        worker: false,
        only: vec![],
    };
    let mut i = 1;
    while i < args.len() {
        match args[i].as_str() {
            "--tier" => {
                i += 1;
                a.tier = if args.get(i).map(|s| s.as_str()) == Some("thorough") { Tier::Thorough } else { Tier::Quick };
            }
            "--replay" => {
                i += 1;
                a.replay = args.get(i).cloned();
            }
            "--worker-release" => a.worker = true,
            "--proposed-fix" => {
                // diagnostic only (implies worker mode: prints a report, writes no evidence)
                a.worker = true;
                USE_PROPOSED_FIX.store(true, std::sync::atomic::Ordering::Relaxed);
            }
            o => a.only.push(o.to_string()),
        }
        i += 1;
    }
    a
}

fn release_binary() -> Option<std::path::PathBuf> {
    let dir = std::env::var("MC_RELEASE_DIR").ok()?;
    let p = std::path::Path::new(&dir).join("c09");
    if p.is_file() {
        Some(p)
    } else {
        None
    }
}

fn worker_main(a: &Args, cap: u64) -> i32 {
    let ctx = Ctx::new("C09", a.tier, cap);
    let res = run_all(&ctx, &a.only);
    let findings = findings_of(&res.agg);
    let out = json!({
        "profile": profile_name(),
        "overflow_checks": overflow_checks_enabled(),
        "levels": res.rep.levels,
        "exhaustive": res.rep.exhaustive,
        "evaluations": res.rep.evaluations,
        "states": res.rep.states,
        "traces": res.rep.traces_validated,
        "nontrivial": res.rep.nontrivial,
        "notes": res.rep.notes,
        "class_counts": class_counts(&res.agg),
        "digests": res.digests.iter().map(|(k, v)| (k.clone(), json!(format!("{v:016x}")))).collect::<serde_json::Map<_, _>>(),
        "findings": findings.iter().map(finding_json).collect::<Vec<_>>(),
        "failing_cases": findings.iter().map(|f| f.count).sum::<u64>(),
        "wall_s": ctx.start.elapsed().as_secs_f64(),
    });
    println!("C09-WORKER-JSON {}", serde_json::to_string(&out).unwrap());
    0
}

fn replay_main(path: &str) -> i32 {
    let s = match std::fs::read_to_string(path) {
        Ok(s) => s,
        Err(e) => {
            eprintln!("ENGINE-ERROR: cannot read {path}: {e}");
            return 2;
        }
    };
    let v: Value = match serde_json::from_str(&s) {
        Ok(v) => v,
        Err(e) => {
            eprintln!("ENGINE-ERROR: {path}: {e}");
            return 2;
        }
    };
    let case = &v["case"];
    let want_profile = case["profile"].as_str().unwrap_or("checked");
    if want_profile == "release" && profile_name() != "release" {
        // the recorded observation belongs to the plain release build: re-run it there
        let bin = release_binary().or_else(|| {
            let p = std::path::PathBuf::from("/verif/mc/target/release/c09");
            p.is_file().then_some(p)
        });
        let Some(bin) = bin else {
            eprintln!("ENGINE-ERROR: case was recorded in the release profile and no release build of c09 is available (MC_RELEASE_DIR)");
            return 2;
        };
        return match std::process::Command::new(bin).arg("--replay").arg(path).status() {
            Ok(st) => st.code().unwrap_or(2),
            Err(e) => {
                eprintln!("ENGINE-ERROR: cannot run release binary: {e}");
                2
            }
        };
    }
    let (Some(kind), Some(entry), Some(input)) = (case["kind"].as_str(), case["entry"].as_str(), case["input"].as_str()) else {
        eprintln!("ENGINE-ERROR: replay file has no case.kind / case.entry / case.input");
        return 2;
    };
    let Some(e) = entry_index(entry) else {
        eprintln!("ENGINE-ERROR: unknown entry point {entry}");
        return 2;
    };
    match run_single(kind, e, input) {
        Err(er) => {
            eprintln!("ENGINE-ERROR: {er}");
            2
        }
        Ok((class, msg)) if class >= FIRST_BAD => {
            let same = case["class"].as_str() == Some(CLASSES[class]);
            println!(
                "REPRODUCED [{}] {}|{}|{} :: {}{}",
                profile_name(),
                entry,
                CLASSES[class],
                input,
                msg,
                if same { "" } else { " (failure class differs from the recorded one)" }
            );
            1
        }
        Ok((class, _)) => {
            println!("not reproduced [{}]: {} on {} conforms to the reference ({})", profile_name(), entry, input, CLASSES[class]);
            0
        }
    }
}

fn main() {
    install_quiet_panic_hook();
    std::env::remove_var("RUST_BACKTRACE");
    std::env::remove_var("RUST_LIB_BACKTRACE");
    let a = parse_args();
    if let Some(path) = &a.replay {
        std::process::exit(replay_main(path));
    }
    selftest_templates();
    let cap = a.tier.pick(100, 1300);
    if a.worker {
        std::process::exit(worker_main(&a, cap));
    }

    // start the release-profile worker first; it runs concurrently with the sweep below
    let tier_name = a.tier.name();
    let mut release_note: Option<String> = None;
    let worker = match release_binary() {
        None => {
            release_note = Some("release profile NOT run: MC_RELEASE_DIR unset or $MC_RELEASE_DIR/c09 missing".into());
            None
        }
        Some(bin) => {
            let mut cmd = std::process::Command::new(&bin);
            cmd.arg("--worker-release").arg("--tier").arg(tier_name).args(&a.only);
            cmd.stdout(std::process::Stdio::piped()).stderr(std::process::Stdio::inherit());
            match cmd.spawn() {
                Ok(child) => Some(std::thread::spawn(move || child.wait_with_output())),
                Err(e) => {
                    release_note = Some(format!("release profile NOT run: cannot spawn {}: {e}", bin.display()));
                    None
                }
            }
        }
    };

    // replay files of earlier runs of this property are stale once a new sweep reports
    if let Ok(rd) = std::fs::read_dir("/verif/replays/C09") {
        for f in rd.flatten() {
            if f.path().extension().map(|x| x == "json").unwrap_or(false) {
                let _ = std::fs::remove_file(f.path());
            }
        }
    }
    let ctx = Ctx::new("C09", a.tier, cap + 60);
    let res = run_all(&ctx, &a.only);
    let mut rep = res.rep;
    if !a.only.is_empty() {
        rep.notes.push(format!("partial run: only levels starting with {:?} were swept", a.only));
        rep.level("all-levels", 0, false);
    }
    let checked = findings_of(&res.agg);
    let checked_cases: u64 = checked.iter().map(|f| f.count).sum();
    for (k, n) in class_counts(&res.agg) {
        rep.outcomes.insert(k, n);
    }

    // collect the worker's report
    let mut release: Vec<Finding> = vec![];
    let mut release_cases = 0u64;
    let mut release_json = Value::Null;
    if let Some(h) = worker {
        match h.join() {
            Ok(Ok(out)) => {
                let text = String::from_utf8_lossy(&out.stdout).to_string();
                match text.lines().rev().find_map(|l| l.strip_prefix("C09-WORKER-JSON ")).and_then(|j| serde_json::from_str::<Value>(j).ok()) {
                    Some(j) if out.status.success() => release_json = j,
                    _ => release_note = Some(format!("release worker died or printed no report (status {:?}); release level not completed", out.status.code())),
                }
            }
            _ => release_note = Some("release worker could not be awaited".into()),
        }
    }
    let mut digest_cmp = serde_json::Map::new();
    if release_json.is_object() {
        let j = &release_json;
        if j["profile"].as_str() != Some("release") || j["overflow_checks"].as_bool() != Some(false) {
            release_note = Some(format!(
                "binary in MC_RELEASE_DIR is not a plain release build (profile {:?}, overflow checks {:?})",
                j["profile"], j["overflow_checks"]
            ));
        }
        for l in j["levels"].as_array().cloned().unwrap_or_default() {
            rep.level(&format!("release:{}", l["level"].as_str().unwrap_or("?")), l["cases"].as_u64().unwrap_or(0), l["completed"].as_bool().unwrap_or(false));
        }
        for n in j["notes"].as_array().cloned().unwrap_or_default() {
            rep.notes.push(format!("release: {}", n.as_str().unwrap_or("")));
        }
        rep.count("release:evaluations", j["evaluations"].as_u64().unwrap_or(0));
        rep.count("release:inputs", j["states"].as_u64().unwrap_or(0));
        rep.count("release:traces_validated", j["traces"].as_u64().unwrap_or(0));
        rep.count("release:wall_s", j["wall_s"].as_f64().unwrap_or(0.0) as u64);
        for (k, n) in j["class_counts"].as_object().cloned().unwrap_or_default() {
            rep.outcomes.insert(format!("release:{k}"), n.as_u64().unwrap_or(0));
        }
        release = j["findings"].as_array().map(|a| a.iter().filter_map(finding_from).collect()).unwrap_or_default();
        release_cases = j["failing_cases"].as_u64().unwrap_or(0);
        let mut all_equal = true;
        for (lvl, d) in &res.digests {
            let mine = format!("{d:016x}");
            let theirs = j["digests"][lvl].as_str().unwrap_or("missing").to_string();
            let eq = mine == theirs;
            all_equal &= eq;
            digest_cmp.insert(lvl.clone(), json!({"checked": mine, "release": theirs, "equal": eq}));
        }
        rep.notes.push(if all_equal {
            "profiles: per-level digests of all (entry, input, ok/err/panic, value, consumed) outcomes are equal in checked and release".into()
        } else {
            "profiles: outcome digests differ between checked and release on some levels (see profile_digests); the differing cases are the findings that carry only one profile".into()
        });
    }
    match &release_note {
        Some(n) => {
            rep.notes.push(n.clone());
            rep.level("release-profile", 0, false);
        }
        None => rep.level("release-profile", release_json["states"].as_u64().unwrap_or(0), release_json["exhaustive"].as_bool().unwrap_or(false)),
    }

    // merge findings: same key in both profiles => one violation; release-only => "release:" prefix
    let rel_keys: BTreeSet<String> = release.iter().map(|f| f.key.clone()).collect();
    let chk_keys: BTreeSet<String> = checked.iter().map(|f| f.key.clone()).collect();
    let have_release = release_json.is_object();
    for f in &checked {
        let both = rel_keys.contains(&f.key);
        let prof = if both {
            "both profiles"
        } else if have_release {
            "checked profile only (release behaves differently on this input)"
        } else {
            "checked profile"
        };
        let msg = format!("[{prof}; {} failing input(s) of this entry/class/length{}] {}", f.count, if f.rechecked { "" } else { "; NOT reproduced on re-check" }, f.msg);
        let case = json!({"kind": f.kind, "entry": f.entry, "class": f.class, "input": f.input, "profile": "checked", "also_in_release": both, "failing_inputs_of_this_key": f.count});
        rep.violation(&f.key, msg, case);
    }
    for f in &release {
        if chk_keys.contains(&f.key) {
            continue;
        }
        let msg = format!("[release profile only; {} failing input(s) of this entry/class/length{}] {}", f.count, if f.rechecked { "" } else { "; NOT reproduced on re-check" }, f.msg);
        let case = json!({"kind": f.kind, "entry": f.entry, "class": f.class, "input": f.input, "profile": "release", "failing_inputs_of_this_key": f.count});
        rep.violation(&format!("release:{}", f.key), msg, case);
    }
    rep.violation_count = checked_cases + release_cases;
    rep.count("failing_cases_checked", checked_cases);
    rep.count("failing_cases_release", release_cases);
    rep.sample(json!({"input": "80 x18 04 (nat 2^128)", "reference": "value 340282366920938463463374607431768211456, 19 bytes; u128 decoders must reject"}));
    rep.sample(json!({"input": "ff 7f", "reference": "unsigned 16383, signed -1, 2 bytes consumed"}));
    rep.sample(json!({"integer": "-2^127 - 1", "reference_sleb": hex::encode(leb::enc_s(&(-(BigInt::one() << 127u32) - 1)))}));

    let code = finish(
        &ctx,
        rep,
        "inputs = byte strings: (i) all strings of length <= L (quick L=2, thorough L=3, incl. the empty string), each followed by a sentinel for the reader entry points; (ii) for n in {7,8,9,10,11,18,19,20,21,40}: (one run | two runs with every split point) over {80,ff,81,c0,bf} of length n-2, followed by two free bytes (thorough: all 65536; quick: 16 listed values of byte n-1 (13 terminating ones and 80, fe, ff); byte n takes all 256 values when byte n-1 is a continuation byte and 16 listed values when byte n-1 terminates the string); (iii) all-continuation strings of length 1..21 in run-length form (quick <=2 runs, thorough <=3 runs). Every input goes to the 4 reader entry points; the 13 message-level entry points get it when it is exactly one terminated string, or unterminated (in family ii: only when the last byte is one of the 5 pattern bytes), or (family ii) a terminated string followed by one 00; in the thorough tier for n in {18,21,40} message-level entries additionally require byte n-1 to be < 0x80 or one of {80,81,fe,ff} (the reader entry points still see all 65536 tails). Encoders: all integers +-2^k+d, |d|<=2, k<=200 on 10 encoder entry points (128-bit ones when in range). Non-trivial = the reference defines a value (terminated string / applicable encoder). A violation key is (entry point, failure class, byte length) with the smallest failing input of that key as the recorded case; all sweeps are repeated by the plain --release build.",
        &[
            "refmodel::leb (R6) is a correct reading of LEB128 / SLEB128 in spec/Candid.md",
            "hand-written message templates are validated at start-up against the reference wire decoder R2",
            "error position / message of rejected inputs is unspecified and not compared",
        ],
        json!({"scope": res.scope, "profile_digests": digest_cmp, "decoder_entry_points": DEC, "encoder_entry_points": ENC, "quick_byte_n_minus_1_values": QUICK_B1.iter().map(|b| format!("{b:02x}")).collect::<Vec<_>>(), "quick_trailing_byte_values": QUICK_TRAIL.iter().map(|b| format!("{b:02x}")).collect::<Vec<_>>()}),
    );
    std::process::exit(code);
}
