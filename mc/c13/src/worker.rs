//! Worker process: reads `RUN <family> <lo> <hi> <pretty> <stack> <mode> <quar> <dskip>` lines on stdin,
//! evaluates the inputs on a thread with the declared stack size and answers on stdout.
//!   AT <i>                       (mode trace) before input i is run, flushed
//!   O <i> <outcome vector>       (mode detail)
//!   A <count> <idx> <json>       per anomaly key of the range: [entry point/stage, class, key text, detail of the shortest input]
//!   DONE <hash> <n> <calls> k=v..
//!   HANG <i>                     from the watchdog, then the process exits
use crate::families::{fingerprint, fnv, Family};
use crate::subject::{self, Obs, EP_NAMES, ERRKIND_NAMES, N_EP};
use mclib::engine::install_quiet_panic_hook;
use std::collections::BTreeMap;
use std::io::{BufRead, Write};
use std::sync::atomic::{AtomicU64, Ordering};

static CURRENT: AtomicU64 = AtomicU64::new(0); // index + 1 of the input being run, 0 = idle
static SERIAL: AtomicU64 = AtomicU64::new(0); // incremented for every input
const HANG_SECS: u64 = 60;

struct Cmd {
    family: String,
    lo: u64,
    hi: u64,
    pretty: bool,
    stack: u64,
    mode: String,
    /// skip the Display stage on quarantined inputs
    quar: bool,
    /// bit ep = skip the Display stage of that entry point on every input of the range
    dskip: u32,
}

fn parse_cmd(l: &str) -> Option<Cmd> {
    let p: Vec<&str> = l.split_whitespace().collect();
    if p.len() != 9 || p[0] != "RUN" {
        return None;
    }
    Some(Cmd {
        family: p[1].to_string(),
        lo: p[2].parse().ok()?,
        hi: p[3].parse().ok()?,
        pretty: p[4] == "1",
        stack: p[5].parse().ok()?,
        mode: p[6].to_string(),
        quar: p[7] == "1",
        dskip: p[8].parse().ok()?,
    })
}

struct AnomAgg {
    count: u64,
    best_len: usize,
    best_idx: u64,
    detail: String,
}

fn run(cmd: &Cmd) -> String {
    let fam = Family::parse(&cmd.family).expect("family");
    let trace = cmd.mode == "trace";
    let detail = cmd.mode == "detail";
    let mut out = String::new();
    let mut hash = 0xcbf29ce484222325u64;
    let mut calls = 0u64;
    let mut nontrivial = 0u64;
    let mut render_failed = 0u64;
    let mut display_skipped_inputs = 0u64;
    // [ep][parse][follow], [ep][errkind]
    let mut counts = [[[0u64; 4]; 4]; N_EP];
    let mut kinds = [[0u64; 7]; N_EP];
    let mut anoms: BTreeMap<(String, &'static str, String), AnomAgg> = BTreeMap::new();
    for i in cmd.lo..cmd.hi {
        let input = fam.input(i);
        if trace {
            println!("AT {i}");
            let _ = std::io::stdout().flush();
        }
        CURRENT.store(i + 1, Ordering::SeqCst);
        SERIAL.fetch_add(1, Ordering::SeqCst);
        let o: Obs = subject::eval(&input, cmd.pretty, cmd.quar, cmd.dskip);
        CURRENT.store(0, Ordering::SeqCst);
        fnv(&mut hash, &o.codes);
        calls += o.calls;
        render_failed += o.pretty_render_failed;
        if o.display_skipped > 0 {
            display_skipped_inputs += 1;
        }
        if o.accepted_somewhere() {
            nontrivial += 1;
        }
        for ep in 0..N_EP {
            counts[ep][o.get(ep, 0) as usize & 3][o.get(ep, 1) as usize & 3] += 1;
            kinds[ep][o.errkind[ep] as usize % 7] += 1;
        }
        if detail {
            out.push_str(&format!("O {i} {}\n", o.hex()));
        }
        for a in o.anomalies {
            let e = anoms.entry((a.ep, a.class, a.keymsg)).or_insert(AnomAgg { count: 0, best_len: usize::MAX, best_idx: i, detail: String::new() });
            e.count += 1;
            if input.len() < e.best_len {
                e.best_len = input.len();
                e.best_idx = i;
                e.detail = a.detail;
            }
        }
    }
    for ((ep, class, keymsg), a) in anoms {
        let j = serde_json::to_string(&serde_json::json!([ep, class, keymsg, a.detail])).unwrap();
        out.push_str(&format!("A {} {} {}\n", a.count, a.best_idx, j));
    }
    let mut kv = vec![format!("nontrivial={nontrivial}")];
    if render_failed > 0 {
        kv.push(format!("pretty_parse_could_not_render_diagnostic={render_failed}"));
    }
    if display_skipped_inputs > 0 {
        kv.push(format!("display_stage_skipped_on_quarantined_inputs={display_skipped_inputs}"));
    }
    let pn = ["-", "ok", "err", "panic"];
    let fname = ["", "+follow-ok", "+follow-err", "+follow-panic"];
    for ep in 0..N_EP {
        for p in 1..4 {
            for f in 0..4 {
                let c = counts[ep][p][f];
                if c > 0 {
                    kv.push(format!("o:{}:{}{}={c}", EP_NAMES[ep], pn[p], fname[f]));
                }
            }
        }
        for k in 1..7 {
            if kinds[ep][k] > 0 {
                kv.push(format!("o:{}:err-kind-{}={}", EP_NAMES[ep], ERRKIND_NAMES[k], kinds[ep][k]));
            }
        }
    }
    out.push_str(&format!("DONE {hash:016x} {} {calls} {}\n", cmd.hi - cmd.lo, kv.join(" ")));
    out
}

pub fn main() {
    install_quiet_panic_hook();
    if std::env::var_os("C13_STAGE_TRACE").is_some() {
        subject::STAGE_TRACE.store(true, Ordering::Relaxed);
        // diagnosis mode: announce every panic (caught or not) on one line, then delegate
        let prev = std::panic::take_hook();
        std::panic::set_hook(Box::new(move |info| {
            let msg = if let Some(s) = info.payload().downcast_ref::<&str>() {
                s.to_string()
            } else if let Some(s) = info.payload().downcast_ref::<String>() {
                s.clone()
            } else {
                "<non-string panic>".to_string()
            };
            let first = msg.lines().next().unwrap_or("").to_string();
            let loc = info.location().map(|l| format!("{}:{}", l.file(), l.line())).unwrap_or_default();
            eprintln!("\nC13-PANIC: {first} @ {loc}");
            prev(info)
        }));
    }
    let profile = if cfg!(debug_assertions) { "checked" } else { "release" };
    println!("HELLO {profile} {}", fingerprint());
    let _ = std::io::stdout().flush();
    // watchdog: an input that makes no progress for HANG_SECS is reported and the process ends
    std::thread::spawn(|| {
        let mut last = (0u64, 0u64);
        let mut since = std::time::Instant::now();
        loop {
            std::thread::sleep(std::time::Duration::from_millis(500));
            let cur = (CURRENT.load(Ordering::SeqCst), SERIAL.load(Ordering::SeqCst));
            if cur != last || cur.0 == 0 {
                last = cur;
                since = std::time::Instant::now();
            } else if since.elapsed().as_secs() >= HANG_SECS {
                println!("HANG {}", cur.0 - 1);
                let _ = std::io::stdout().flush();
                std::process::exit(3);
            }
        }
    });
    let stdin = std::io::stdin();
    for line in stdin.lock().lines() {
        let Ok(line) = line else { break };
        if line.trim().is_empty() {
            continue;
        }
        let Some(cmd) = parse_cmd(&line) else {
            println!("ERR bad command {line:?}");
            continue;
        };
        if Family::parse(&cmd.family).is_none() {
            println!("ERR unknown family {}", cmd.family);
            continue;
        }
        let stack = cmd.stack.max(64 * 1024) as usize;
        let h = std::thread::Builder::new().stack_size(stack).spawn(move || run(&cmd));
        match h.map(|h| h.join()) {
            Ok(Ok(out)) => {
                print!("{out}");
            }
            Ok(Err(_)) => println!("ERR harness thread panicked"),
            Err(e) => println!("ERR cannot spawn thread: {e}"),
        }
        let _ = std::io::stdout().flush();
    }
}
