//! Input families of C13: pure functions (family, index) -> input string. Compiled into the
//! orchestrator and both workers; `fingerprint()` guards against a stale release binary.
use std::sync::OnceLock;

/// (i) character alphabet: every punctuation character the lexer knows, quote characters,
/// digits, keyword/hex/escape/exponent letters, white space, control and multi-byte chars.
pub const CHARS: &[char] = &[
    '(', ')', '{', '}', '[', ']', ';', ',', '.', ':', '=', '-', '>', '"', '\'', '\\', '/', '*', '+', '_', '!', '#', // 22
    '0', '1', '9', // 3
    'e', 'E', 'x', 'X', 'a', 'f', 'F', 'u', 't', 'n', // 10
    ' ', '\n', '\t', '\r', '\0', '\x7f', // 6
    'é', '€', '😀', // 2-, 3-, 4-byte UTF-8
];

pub const D40: &str = "1234567890123456789012345678901234567890";

/// (ii) FULL lexeme alphabet.
pub const TOKENS_FULL: &[&str] = &[
    // keywords and primitive type names
    "type", "service", "func", "record", "variant", "opt", "vec", "blob", "principal", "import", "query", "oneway",
    "composite_query", "null", "true", "false", "nat", "int", "text", "nat8", "int64", "float32", "reserved", "empty",
    // identifiers
    "a", "_", "assert",
    // punctuation
    "(", ")", "{", "}", ";", ",", ".", ":", "=", "->", "==", "!=", "!:", "-",
    // numerals
    "0", "1", "4294967295", "4294967296", "0x0", "0XFF", "0xFFFFFFFF", "0xffffffffffffffffff", "1_0", "1_", "_1", "1e400",
    "1.", ".5", "1e", "-0", "+1", D40,
    // strings
    "\"a\"", "\"\"", "\"aaaaa-aa\"", "\"\\u{10FFFF}\"", "\"\\u{110000}\"", "\"\\u{D800}\"", "\"\\xx\"", "\"\\ff\"", "\"\\\"", "\"a",
    "\"\\u{",
    // comments
    "// x", "/* x */", "/*", "/* /* */ */",
];

/// (ii) CORE lexeme alphabet (subset of FULL) used for the longest sequences.
pub const TOKENS_CORE: &[&str] = &[
    "type", "service", "func", "record", "variant", "opt", "vec", "blob", "principal", "import", "query", "null", "true",
    "nat", "a", "assert", // 16
    "(", ")", "{", "}", ";", ",", ".", ":", "=", "->", "==", // 11
    "0", "1", "4294967295", "0XFF", "0xFFFFFFFF", "1e400", "-0", // 7
    "\"a\"", "\"\\ff\"", "\"a", "\"\\u{110000}\"", // 4
    "/* x */", "/*", // 2
];

/// (iii) E3 seed sentences as arrays of lexemes (joined by one space).
pub const SEEDS: &[&[&str]] = &[
    // ---- programs
    &["type", "a", "=", "nat", ";"],
    &["type", "a", "=", "opt", "a", ";", "type", "b", "=", "vec", "a", ";", "service", ":", "{", "f", ":", "(", "a", ")", "->", "(", "b", ")", "query", ";", "}"],
    &["import", "\"x.did\"", ";", "import", "service", "\"y.did\"", ";", "type", "t", "=", "record", "{", "a", ":", "nat", ";", "\"b c\"", ":", "text", ";", "5", ":", "int", ";", "0x10", ":", "bool", "}", ";"],
    &["type", "v", "=", "variant", "{", "a", ";", "\"b\"", ":", "nat", ";", "3", ";", "0x4", ":", "text", "}", ";", "service", "s", ":", "{", "get", ":", "(", ")", "->", "(", "v", ")", "composite_query", ";", "put", ":", "(", "v", ")", "->", "(", ")", "oneway", "}"],
    &["type", "f", "=", "func", "(", "nat", ",", "x", ":", "text", ")", "->", "(", "opt", "f", ")", "query", ";", "type", "s", "=", "service", "{", "m", ":", "f", ";", "\"n\"", ":", "(", ")", "->", "(", ")", "}", ";", "service", ":", "(", "nat", ",", "opt", "s", ")", "->", "s"],
    &["service", ":", "(", "x", ":", "nat", ")", "->", "{", "f", ":", "(", ")", "->", "(", ")", "}", ";"],
    &["type", "r", "=", "record", "{", "nat", ";", "text", ";", "record", "{", "}", ";", "blob", ";", "principal", ";", "null", ";", "reserved", ";", "empty", ";", "float64", "}", ";"],
    &["// doc\n", "type", "a", "=", "nat", ";", "/* c */", "service", ":", "{", "// m\n", "f", ":", "(", ")", "->", "(", ")", "}"],
    &["type", "t", "=", "record", "{", "4294967294", ":", "nat", ";", "nat", "}", ";"],
    &["service", ":", "a", ";"],
    &["type", "a", "=", "b", ";", "type", "b", "=", "a", ";"],
    // ---- parseable programs that break one rule of the type checker each (error paths of typing.rs)
    &["type", "t", "=", "nat", ";", "type", "s", "=", "service", "{", "m", ":", "t", "}", ";"],
    &["type", "s", "=", "service", "{", "m", ":", "s", "}", ";"],
    &["type", "t", "=", "vec", "service", "{", "m", ":", "u", "}", ";", "type", "u", "=", "principal", ";", "service", ":", "{", "f", ":", "(", "t", ")", "->", "(", ")", "}"],
    &["type", "a", "=", "b", ";", "type", "b", "=", "c", ";", "type", "c", "=", "b", ";", "service", ":", "{", "f", ":", "(", "a", ")", "->", "(", ")", "}"],
    &["type", "f", "=", "func", "(", ")", "->", "(", "nat", ")", "oneway", ";", "type", "r", "=", "record", "{", "a", ":", "nat", ";", "a", ":", "text", "}", ";", "service", ":", "{", "m", ":", "f", ";", "m", ":", "f", "}"],
    &["type", "s", "=", "service", "{", "m", ":", "(", ")", "->", "(", ")", "}", ";", "type", "t", "=", "opt", "s", ";", "service", ":", "t"],
    &["type", "a", "=", "record", "{", "x", ":", "o", "}", ";", "type", "o", "=", "opt", "nat", ";", "type", "s", "=", "service", "{", "p", ":", "o", "}", ";", "service", ":", "s"],
    &["type", "a", "=", "nat", ";", "type", "a", "=", "text", ";", "service", ":", "(", "a", ",", "b", ")", "->", "{", "}"],
    // ---- the empty quoted string in every position a name can occupy
    &["type", "t", "=", "record", "{", "\"\"", ":", "nat", ";", "\"\"", ":", "text", "}", ";", "service", ":", "(", "\"\"", ":", "t", ")", "->", "{", "\"\"", ":", "(", "\"\"", ":", "nat", ")", "->", "(", "\"\"", ":", "t", ")", "}"],
    &["func", "(", "\"\"", ":", "nat", ",", "a", ":", "text", ")", "->", "(", "\"\"", ":", "variant", "{", "\"\"", "}", ")"],
    &["(", "\"\"", ":", "nat", ",", "text", ")"],
    &["(", "record", "{", "\"\"", "=", "1", "}", ",", "variant", "{", "\"\"", "=", "\"\"", "}", ",", "func", "\"aaaaa-aa\"", ".", "\"\"", ",", "\"\"", ":", "text", ")"],
    &["assert", "blob", "\"\"", ":", "(", "\"\"", ":", "nat", ")", "\"\"", ";"],
    // ---- types
    &["opt", "vec", "record", "{", "a", ":", "variant", "{", "b", ":", "func", "(", ")", "->", "(", ")", ";", "c", "}", ";", "1", ":", "service", "{", "}", "}"],
    &["record", "{", "nat", ";", "5", ":", "text", ";", "bool", "}"],
    &["func", "(", "record", "{", "4294967294", ":", "nat", ";", "nat", "}", ")", "->", "(", ")", "oneway"],
    &["variant", "{", "4294967295", ";", "a", ":", "null", "}"],
    &["service", "{", "f", ":", "(", "nat", ")", "->", "(", "nat", ")", "query", ";", "g", ":", "h", "}"],
    // ---- type tuples / init args
    &["(", "nat", ",", "a", ":", "text", ",", "opt", "bool", ")"],
    &["type", "a", "=", "nat", ";", "(", "a", ",", "b", ":", "vec", "a", ")"],
    &["(", ")"],
    // ---- values / args
    &["(", "1", ",", "-2", ",", "+3", ",", "0x1f", ",", "1_000", ",", "1.5", ",", "-1e3", ",", ".5", ",", "1.", ",", "true", ",", "false", ",", "null", ")"],
    &["(", "\"text\"", ",", "\"\\u{1F600}\\n\\t\\\\\\\"\\'\\41\"", ",", "blob", "\"DIDL\\00\\01\"", ",", "blob", "\"\\ff\"", ")"],
    &["(", "1", ":", "nat8", ",", "-1", ":", "int8", ",", "1.0", ":", "float32", ",", "1", ":", "float64", ",", "300", ":", "nat16", ",", "0xff", ":", "nat64", ",", "1", ":", "int", ")"],
    &["(", "opt", "1", ",", "opt", "opt", "null", ",", "vec", "{", "1", ";", "2", ";", "3", "}", ",", "vec", "{", "}", ",", "vec", "{", "1", ":", "nat8", ";", "2", "}", ")"],
    &["(", "record", "{", "a", "=", "1", ";", "\"b c\"", "=", "\"x\"", ";", "5", "=", "true", ";", "0x6", "=", "null", "}", ",", "record", "{", "}", ")"],
    &["(", "record", "{", "1", ";", "2", "}", ",", "record", "{", "4294967294", "=", "1", ";", "2", "}", ",", "record", "{", "1", ";", "a", "=", "2", ";", "3", "}", ")"],
    &["(", "variant", "{", "a", "}", ",", "variant", "{", "a", "=", "1", "}", ",", "variant", "{", "5", "}", ",", "variant", "{", "0x5", "=", "\"x\"", "}", ",", "variant", "{", "\"q\"", "=", "opt", "1", "}", ")"],
    &["(", "principal", "\"aaaaa-aa\"", ",", "service", "\"aaaaa-aa\"", ",", "func", "\"aaaaa-aa\"", ".", "foo", ",", "func", "\"aaaaa-aa\"", ".", "\"b a r\"", ")"],
    &["(", "(", "1", ")", ",", "(", "(", "opt", "2", ")", ")", ",", "(", "1", ":", "nat", ")", ")"],
    &["(", "record", "{", "a", "=", "record", "{", "b", "=", "variant", "{", "c", "=", "vec", "{", "opt", "record", "{", "1", ";", "\"x\"", "}", "}", "}", "}", "}", ")"],
    &["(", "vec", "{", "1", ";", "2", "}", ":", "vec", "nat8", ",", "opt", "1", ":", "opt", "nat", ",", "record", "{", "a", "=", "1", "}", ":", "record", "{", "a", ":", "nat", "}", ",", "variant", "{", "a", "}", ":", "variant", "{", "a", ";", "b", "}", ",", "null", ":", "opt", "nat", ",", "principal", "\"aaaaa-aa\"", ":", "principal", ")"],
    &["(", "1", ":", "reserved", ",", "\"x\"", ":", "empty", ",", "null", ":", "null", ",", "vec", "{", "}", ":", "blob", ",", "func", "\"aaaaa-aa\"", ".", "f", ":", "func", "(", ")", "->", "(", ")", ",", "service", "\"aaaaa-aa\"", ":", "service", "{", "}", ")"],
    &["record", "{", "a", "=", "1", ";", "b", "=", "vec", "{", "2", "}", "}"],
    &["opt", "variant", "{", "x", "=", "1.5", "}"],
    &["42"],
    // ---- test scripts
    &["assert", "blob", "\"DIDL\\00\\00\"", ":", "(", ")", ";"],
    &["assert", "blob", "\"DIDL\\00\\01\\7f\"", "!:", "(", "null", ")", "\"desc\"", ";"],
    &["assert", "blob", "\"DIDL\\00\\01\\7e\\00\"", "==", "\"(false)\"", ":", "(", "bool", ")", "\"bool\"", ";", "assert", "\"(1)\"", "!=", "blob", "\"DIDL\\00\\01\\7c\\02\"", ":", "(", "int", ")", ";"],
    &["type", "T", "=", "record", "{", "a", ":", "nat", "}", ";", "import", "\"x\"", ";", "assert", "\"(record { a = 1 })\"", ":", "(", "T", ")", "\"t\"", ";", "assert", "\"(1, 2)\"", "==", "\"(1 : nat, 2)\"", ":", "(", "nat", ",", "int", ")"],
    &["assert", "\"(record { 1; 2 })\"", "!:", "(", "record", "{", "nat", "}", ")", ";"],
    &["assert", "blob", "\"\"", "==", "blob", "\"\"", ":", "(", ")", ";", "assert", "\"\"", ":", "(", ")"],
];

// ---- (v) annotated numerals
pub const ANN_SIGNS: &[&str] = &["", "-", "+"];
pub const ANN_NUMS: &[&str] = &[
    "0", "1", "127", "128", "255", "256", "4294967295", "4294967296", "18446744073709551615", "18446744073709551616", "0x0",
    "0XFF", "0xFFFFFFFF", "0xffffffffffffffffff", "1_0", "1e400", "1e-400", "1.", ".5", ".", "1e3", "3.4e38", "3.5e38", D40,
];
pub const ANN_TYPES: &[&str] = &[
    "nat", "nat8", "nat16", "nat32", "nat64", "int", "int8", "int16", "int32", "int64", "float32", "float64", "bool", "text",
    "null", "reserved", "empty", "principal", "blob", "opt nat8", "opt opt int8", "vec nat8", "record { }", "variant { a }", "a",
    "func ( ) -> ( )", "service { }",
];

// ---- (vi) non-UTF-8 string literals (`\\HH` escapes >= 0x80) in every syntactic position; these
// inputs are quarantined on the other levels (Display stage skipped), here nothing is skipped
pub const QUAR: &[&str] = &[
    "\"\\ff\"",
    "( blob \"\\ff\" , \"\\ff\" )",
    "\"\\c3\\a9\"",
    "\"\\e2\\82\"",
    "type a = \"\\f0\" ;",
    "import \"\\ff\" ; \"a\\80b\"",
    "record { \"\\ff\" : nat }",
    "( record { \"\\ff\" = 1 } )",
    "assert blob \"\\ff\" == \"\\ff\" \"\\ff\"",
    "\"\\ff",
];

// ---- (vii) escape sequences of string literals, in every position a string literal can occupy
pub const ESC_CONTEXTS: &[&str] = &[
    "\"@\"", "( \"@\" )", "( \"a@b\" , 1 )", "record { \"@\" : nat }", "type t = variant { \"@\" } ; service : { \"@\" : ( t ) -> ( ) }",
    "( record { \"@\" = 1 } )", "( variant { \"@\" } )", "( blob \"@\" )", "assert \"@\" : ( ) \"@\"", "( func \"aaaaa-aa\" . \"@\" )",
    "import \"@\" ;",
];

/// every escape form of the lexer with boundary payloads: `\\u{D}` for hex digit strings of 1..=12
/// digits (all zeros, one then zeros, all F, one-zeros-41, with `_` separators), two-digit byte
/// escapes below 0x80, the single-character escapes, and malformed variants of each
pub fn escapes() -> &'static Vec<String> {
    static E: OnceLock<Vec<String>> = OnceLock::new();
    E.get_or_init(|| {
        let mut v: Vec<String> = vec![];
        for n in 1..=12usize {
            let zeros = "0".repeat(n);
            let one = format!("1{}", "0".repeat(n - 1));
            let effs = "F".repeat(n);
            let tail = if n >= 3 { format!("1{}41", "0".repeat(n - 3)) } else { "41".to_string() };
            let pad = format!("{}41", "0".repeat(n));
            for d in [zeros, one.clone(), effs, tail, pad] {
                v.push(format!("\\u{{{d}}}"));
            }
            // separators
            let mut sep = String::new();
            for (i, c) in one.chars().enumerate() {
                if i > 0 && i % 4 == 1 {
                    sep.push('_');
                }
                sep.push(c);
            }
            v.push(format!("\\u{{{sep}}}"));
        }
        for s in [
            "\\u{D7FF}", "\\u{D800}", "\\u{DFFF}", "\\u{E000}", "\\u{10FFFF}", "\\u{110000}", "\\u{7FFFFFFF}", "\\u{80000000}", "\\u{FFFFFFFF}", "\\u{}", "\\u{_}",
            "\\u{_1}", "\\u{1_}", "\\u{g}", "\\u{1", "\\u1}", "\\u", "\\U{41}", "\\00", "\\7f", "\\41", "\\4", "\\g0", "\\0g", "\\n", "\\r", "\\t", "\\\\", "\\\"",
            "\\'", "\\q", "\\ ", "\\", "\\x41", "\\0", "\\u{41}\\u{100000041}",
        ] {
            v.push(s.to_string());
        }
        v.dedup();
        v
    })
}

// ---- (viii) long string literals of multi-byte characters whose annotation does not fit: error messages
// that quote (and possibly abbreviate) the value must not cut inside a character
pub const LONG_UNITS: &[&str] = &["a", "é", "€", "😀"];
pub const LONG_SHAPES: &[&str] = &["( \"@\" : nat )", "\"@\" : bool", "( opt \"@\" : opt int )", "( record { a = \"@\" } : record { a : nat8 } )", "( vec { \"@\" } : vec principal )", "( \"@\" )"];
/// total character counts: every count 1..=40, then every count whose byte length crosses 60..=260 in steps small
/// enough that each byte offset modulo the character width occurs (ASCII prefix of 0..3 characters)
pub fn long_counts() -> Vec<usize> {
    let mut v: Vec<usize> = (1..=40).collect();
    v.extend((41..=140).step_by(1));
    v
}
pub fn long_size() -> u64 {
    (LONG_UNITS.len() * LONG_SHAPES.len() * long_counts().len() * 4) as u64
}
pub fn long_input(idx: u64) -> String {
    let idx = idx as usize;
    let nc = long_counts().len();
    let pre = idx % 4;
    let cnt = long_counts()[(idx / 4) % nc];
    let unit = LONG_UNITS[(idx / 4 / nc) % LONG_UNITS.len()];
    let shape = LONG_SHAPES[idx / 4 / nc / LONG_UNITS.len()];
    shape.replace('@', &format!("{}{}", "x".repeat(pre), unit.repeat(cnt)))
}

// ---- (iv) nesting
pub const NEST_DEPTH: u64 = 128;

struct NestTemplate {
    name: String,
    make: Box<dyn Fn(usize) -> String + Send + Sync>,
}

fn rep(unit: &str, d: usize) -> String {
    unit.repeat(d)
}

fn nest_templates() -> &'static Vec<NestTemplate> {
    static T: OnceLock<Vec<NestTemplate>> = OnceLock::new();
    T.get_or_init(|| {
        let mut v: Vec<NestTemplate> = vec![];
        // type constructs: (name, opening unit, core, closing unit)
        let tys: &[(&str, &str, &str, &str)] = &[
            ("opt-type", "opt ", "nat", ""),
            ("vec-type", "vec ", "nat", ""),
            ("record-field-type", "record { a : ", "nat", " }"),
            ("record-shorthand-type", "record { ", "nat", " }"),
            ("variant-field-type", "variant { a : ", "nat", " }"),
            ("func-arg-type", "func ( ", "", " ) -> ( )"),
            ("func-result-type", "func ( ) -> ( ", "", " )"),
            ("func-in-service-type", "service { f : ( ", "", " ) -> ( ) }"),
        ];
        let ty_wrappers: &[(&str, &str, &str)] = &[
            ("bare", "", ""),
            ("tuple", "( ", " )"),
            ("def", "type a = ", " ;"),
            ("def+initargs", "type a = ", " ; ( a )"),
            ("test", "assert \"(null)\" : ( ", " ) ;"),
            ("actor-class", "service : ( ", " ) -> { }"),
        ];
        for (n, open, core, close) in tys {
            for (wn, pre, suf) in ty_wrappers {
                let (open, core, close, pre, suf) = (open.to_string(), core.to_string(), close.to_string(), pre.to_string(), suf.to_string());
                v.push(NestTemplate {
                    name: format!("{n}/{wn}"),
                    make: Box::new(move |d| format!("{pre}{}{core}{}{suf}", rep(&open, d), rep(&close, d))),
                });
            }
        }
        let vals: &[(&str, &str, &str, &str)] = &[
            ("paren-value", "( ", "1", " )"),
            ("opt-value", "opt ", "1", ""),
            ("vec-value", "vec { ", "", " }"),
            ("record-field-value", "record { a = ", "1", " }"),
            ("record-shorthand-value", "record { ", "1", " }"),
            ("variant-value", "variant { a = ", "null", " }"),
        ];
        let val_wrappers: &[(&str, &str, &str)] = &[("bare", "", ""), ("args", "( ", " )"), ("test", "assert \"( ", " )\" : ( ) ;")];
        for (n, open, core, close) in vals {
            for (wn, pre, suf) in val_wrappers {
                let (open, core, close, pre, suf) = (open.to_string(), core.to_string(), close.to_string(), pre.to_string(), suf.to_string());
                v.push(NestTemplate {
                    name: format!("{n}/{wn}"),
                    make: Box::new(move |d| format!("{pre}{}{core}{}{suf}", rep(&open, d), rep(&close, d))),
                });
            }
        }
        // annotated: the value and its type are both nested d deep
        v.push(NestTemplate { name: "annotated-opt/args".into(), make: Box::new(|d| format!("( {}1 : {}nat )", rep("opt ", d), rep("opt ", d))) });
        v.push(NestTemplate { name: "annotated-vec/args".into(), make: Box::new(|d| format!("( {}{} : {}nat )", rep("vec { ", d), rep(" }", d), rep("vec ", d))) });
        v.push(NestTemplate {
            name: "annotated-record/args".into(),
            make: Box::new(|d| format!("( {}1{} : {}nat{} )", rep("record { a = ", d), rep(" }", d), rep("record { a : ", d), rep(" }", d))),
        });
        v.push(NestTemplate { name: "annotation-nest/args".into(), make: Box::new(|d| format!("( {}1{} )", rep("( ", d), rep(" : int )", d))) });
        // block comments
        v.push(NestTemplate { name: "comment/type".into(), make: Box::new(|d| format!("{}x{} nat", rep("/* ", d), rep(" */", d))) });
        v.push(NestTemplate { name: "comment/args".into(), make: Box::new(|d| format!("( 1 {}x{} )", rep("/* ", d), rep(" */", d))) });
        v.push(NestTemplate { name: "comment/def".into(), make: Box::new(|d| format!("{}x{} type a = nat ;", rep("/* ", d), rep(" */", d))) });
        v.push(NestTemplate { name: "comment/unterminated".into(), make: Box::new(|d| format!("nat {}x", rep("/* ", d))) });
        v.push(NestTemplate { name: "comment/over-closed".into(), make: Box::new(|d| format!("{}x{} */ nat", rep("/* ", d), rep(" */", d))) });
        v
    })
}

pub fn nest_template_names() -> Vec<String> {
    nest_templates().iter().map(|t| t.name.clone()).collect()
}

// ---- seeds table
struct SeedTable {
    /// start offset of every seed's block, plus the total at the end
    offsets: Vec<u64>,
}

fn seed_block(m: u64) -> u64 {
    let t = TOKENS_FULL.len() as u64;
    // seed, deletions, duplications, replacements, adjacent swaps
    1 + m + m + m * t + m.saturating_sub(1)
}

fn seed_table() -> &'static SeedTable {
    static T: OnceLock<SeedTable> = OnceLock::new();
    T.get_or_init(|| {
        let mut offsets = vec![0u64];
        for s in SEEDS {
            let last = *offsets.last().unwrap();
            offsets.push(last + seed_block(s.len() as u64));
        }
        SeedTable { offsets }
    })
}

fn mutant(idx: u64) -> String {
    let tab = seed_table();
    let s = match tab.offsets.binary_search(&idx) {
        Ok(i) => i,
        Err(i) => i - 1,
    };
    let seed = SEEDS[s];
    let m = seed.len() as u64;
    let t = TOKENS_FULL.len() as u64;
    let mut j = idx - tab.offsets[s];
    let mut toks: Vec<&str> = seed.to_vec();
    if j == 0 {
        return toks.join(" ");
    }
    j -= 1;
    if j < m {
        toks.remove(j as usize);
        return toks.join(" ");
    }
    j -= m;
    if j < m {
        let x = toks[j as usize];
        toks.insert(j as usize, x);
        return toks.join(" ");
    }
    j -= m;
    if j < m * t {
        toks[(j / t) as usize] = TOKENS_FULL[(j % t) as usize];
        return toks.join(" ");
    }
    j -= m * t;
    toks.swap(j as usize, j as usize + 1);
    toks.join(" ")
}

/// structural mutants only: the seed, deletions, duplications, adjacent swaps
fn seed_block_s(m: u64) -> u64 {
    1 + m + m + m.saturating_sub(1)
}

fn seed_table_s() -> &'static SeedTable {
    static T: OnceLock<SeedTable> = OnceLock::new();
    T.get_or_init(|| {
        let mut offsets = vec![0u64];
        for s in SEEDS {
            let last = *offsets.last().unwrap();
            offsets.push(last + seed_block_s(s.len() as u64));
        }
        SeedTable { offsets }
    })
}

fn mutant_s(idx: u64) -> String {
    let tab = seed_table_s();
    let s = match tab.offsets.binary_search(&idx) {
        Ok(i) => i,
        Err(i) => i - 1,
    };
    let m = SEEDS[s].len() as u64;
    let t = TOKENS_FULL.len() as u64;
    let j = idx - tab.offsets[s];
    // map onto the index space of `mutant`: skip the replacement block
    let jj = if j < 1 + 2 * m { j } else { j + m * t };
    mutant(seed_table().offsets[s] + jj)
}

/// depths of the nesting templates that are also rendered by pretty_parse
pub const NESTP_DEPTHS: &[u64] = &[1, 2, 3, 64, 128];

// ---- family dispatch
pub enum Family {
    Chars { min: u32, max: u32 },
    Toks { alpha: &'static [&'static str], min: u32, max: u32 },
    Mut,
    MutS,
    Ann,
    Nest,
    NestP,
    Quar,
    Esc,
    Long,
    Lit(String),
}

fn pow_range(n: u64, min: u32, max: u32) -> u64 {
    (min..=max).map(|l| n.pow(l)).sum()
}

/// decode index into (length, digits most-significant first)
fn pow_decode(n: u64, min: u32, max: u32, mut idx: u64, digits: &mut Vec<usize>) {
    digits.clear();
    for l in min..=max {
        let c = n.pow(l);
        if idx < c {
            for _ in 0..l {
                digits.push((idx % n) as usize);
                idx /= n;
            }
            digits.reverse();
            return;
        }
        idx -= c;
    }
    panic!("index out of range");
}

impl Family {
    pub fn parse(s: &str) -> Option<Family> {
        let parts: Vec<&str> = s.split(':').collect();
        let num = |i: usize| parts.get(i).and_then(|x| x.parse::<u32>().ok());
        match parts[0] {
            "chars" => Some(Family::Chars { min: num(1)?, max: num(2)? }),
            "toksF" => Some(Family::Toks { alpha: TOKENS_FULL, min: num(1)?, max: num(2)? }),
            "toksC" => Some(Family::Toks { alpha: TOKENS_CORE, min: num(1)?, max: num(2)? }),
            "mut" => Some(Family::Mut),
            "mutS" => Some(Family::MutS),
            "nestP" => Some(Family::NestP),
            "ann" => Some(Family::Ann),
            "nest" => Some(Family::Nest),
            "quar" => Some(Family::Quar),
            "esc" => Some(Family::Esc),
            "long" => Some(Family::Long),
            "lit" => {
                let b = hex::decode(parts.get(1)?).ok()?;
                Some(Family::Lit(String::from_utf8(b).ok()?))
            }
            _ => None,
        }
    }
    pub fn size(&self) -> u64 {
        match self {
            Family::Chars { min, max } => pow_range(CHARS.len() as u64, *min, *max),
            Family::Toks { alpha, min, max } => pow_range(alpha.len() as u64, *min, *max),
            Family::Mut => *seed_table().offsets.last().unwrap(),
            Family::MutS => *seed_table_s().offsets.last().unwrap(),
            Family::NestP => nest_templates().len() as u64 * NESTP_DEPTHS.len() as u64,
            Family::Ann => (ANN_SIGNS.len() * ANN_NUMS.len() * ANN_TYPES.len()) as u64,
            Family::Nest => nest_templates().len() as u64 * NEST_DEPTH,
            Family::Quar => QUAR.len() as u64,
            Family::Esc => (ESC_CONTEXTS.len() * escapes().len()) as u64,
            Family::Long => long_size(),
            Family::Lit(_) => 1,
        }
    }
    pub fn input(&self, idx: u64) -> String {
        let mut digits = vec![];
        match self {
            Family::Chars { min, max } => {
                pow_decode(CHARS.len() as u64, *min, *max, idx, &mut digits);
                digits.iter().map(|d| CHARS[*d]).collect()
            }
            Family::Toks { alpha, min, max } => {
                pow_decode(alpha.len() as u64, *min, *max, idx, &mut digits);
                digits.iter().map(|d| alpha[*d]).collect::<Vec<_>>().join(" ")
            }
            Family::Mut => mutant(idx),
            Family::MutS => mutant_s(idx),
            Family::NestP => {
                let n = NESTP_DEPTHS.len() as u64;
                let t = &nest_templates()[(idx / n) as usize];
                (t.make)(NESTP_DEPTHS[(idx % n) as usize] as usize)
            }
            Family::Ann => {
                let nt = ANN_TYPES.len() as u64;
                let nn = ANN_NUMS.len() as u64;
                let t = ANN_TYPES[(idx % nt) as usize];
                let n = ANN_NUMS[((idx / nt) % nn) as usize];
                let s = ANN_SIGNS[(idx / nt / nn) as usize];
                format!("( {s}{n} : {t} )")
            }
            Family::Nest => {
                let t = &nest_templates()[(idx / NEST_DEPTH) as usize];
                (t.make)((idx % NEST_DEPTH) as usize + 1)
            }
            Family::Quar => QUAR[idx as usize].to_string(),
            Family::Esc => {
                let nc = ESC_CONTEXTS.len() as u64;
                ESC_CONTEXTS[(idx % nc) as usize].replace('@', &escapes()[(idx / nc) as usize])
            }
            Family::Long => long_input(idx),
            Family::Lit(s) => s.clone(),
        }
    }
}

pub fn fnv(h: &mut u64, bytes: &[u8]) {
    for b in bytes {
        *h ^= *b as u64;
        *h = h.wrapping_mul(0x100000001b3);
    }
}

/// Hash of everything that defines the families and the outcome encoding.
pub fn fingerprint() -> String {
    let mut h = 0xcbf29ce484222325u64;
    for c in CHARS {
        fnv(&mut h, c.to_string().as_bytes());
        fnv(&mut h, &[0]);
    }
    for e in escapes() {
        fnv(&mut h, e.as_bytes());
        fnv(&mut h, &[0]);
    }
    for set in [TOKENS_FULL, TOKENS_CORE, ANN_SIGNS, ANN_NUMS, ANN_TYPES, QUAR, ESC_CONTEXTS, LONG_UNITS, LONG_SHAPES] {
        for t in set {
            fnv(&mut h, t.as_bytes());
            fnv(&mut h, &[0]);
        }
        fnv(&mut h, &[1]);
    }
    for s in SEEDS {
        for t in *s {
            fnv(&mut h, t.as_bytes());
            fnv(&mut h, &[0]);
        }
        fnv(&mut h, &[1]);
    }
    for t in nest_templates() {
        fnv(&mut h, t.name.as_bytes());
        fnv(&mut h, (t.make)(2).as_bytes());
        fnv(&mut h, &[0]);
    }
    fnv(&mut h, &[crate::subject::ENCODING_VERSION]);
    format!("{h:016x}")
}
