//! The only module that calls into /repo. One input -> outcome vector + anomalies.
//! Runs inside worker processes only.
use candid::types::value::{IDLArgs, IDLValue};
use candid::TypeEnv;
use candid_parser::syntax::{IDLInitArgs, IDLType, IDLTypes};
use candid_parser::test::{Input, Test};
use candid_parser::typing::{ast_to_type, check_init_args};
use candid_parser::{check_prog, parse_idl_args, parse_idl_value, pretty_parse, pretty_wrap, Error, IDLProg};
use mclib::engine::catch;
use std::str::FromStr;

pub const N_EP: usize = 7;
pub const EP_NAMES: [&str; N_EP] = ["IDLProg", "IDLType", "IDLTypes", "IDLInitArgs", "Test", "parse_idl_args", "parse_idl_value"];
/// bump when the meaning of the outcome vector changes
pub const ENCODING_VERSION: u8 = 3;
pub const SLOTS: usize = 4;

// slot 0 (parse):  1 Ok, 2 Err, 3 panic
// slot 1 (follow): 0 n/a, 1 Ok, 2 Err (type check / annotation rejected), 3 panic
// slot 2 (diag):   0 n/a, 1 usable label, 2 unusable, 3 panic
// slot 3 (pretty): 0 n/a or not run, 1 Err (as expected), 2 Ok although parse said Err, 3 panic
pub const PANIC: u8 = 3;

/// When set (env C13_STAGE_TRACE in the worker), every call into the subject is announced
/// on stderr first, so that the orchestrator can attribute an abort to an entry point/stage.
pub static STAGE_TRACE: std::sync::atomic::AtomicBool = std::sync::atomic::AtomicBool::new(false);

#[inline]
fn stage(ep: usize, name: &str) {
    if STAGE_TRACE.load(std::sync::atomic::Ordering::Relaxed) {
        eprintln!("\nSTAGE {}/{}", EP_NAMES[ep], name);
    }
}

/// `catch` with the stage announced
fn call<T>(ep: usize, name: &str, f: impl FnOnce() -> T) -> Result<T, String> {
    stage(ep, name);
    catch(f)
}

#[derive(Clone, Debug)]
pub struct Anom {
    pub ep: String,
    pub class: &'static str,
    pub keymsg: String,
    pub detail: String,
}

pub struct Obs {
    pub codes: [u8; N_EP * SLOTS],
    /// 0 none, 1 User, 2 InvalidToken, 3 UnrecognizedEof, 4 UnrecognizedToken, 5 ExtraToken, 6 not a parse error
    pub errkind: [u8; N_EP],
    pub anomalies: Vec<Anom>,
    pub calls: u64,
    pub pretty_render_failed: u64,
    pub display_skipped: u64,
    /// bit ep = skip the Display stage of that entry point
    skip_display: u32,
}

/// Quarantine predicate (see main.rs rule text): the input contains a `\HH` escape with
/// HH >= 0x80, i.e. a string literal may lex to a `String` that is not UTF-8 (token.rs pushes
/// the raw byte). Formatting an error that carries such a token aborts the process in builds
/// with debug assertions, which cannot be caught; levels that opt in skip the Display stage
/// for exactly these inputs (a superset of the inputs that really abort).
pub fn quarantined(input: &str) -> bool {
    let b = input.as_bytes();
    b.windows(3).any(|w| w[0] == b'\\' && matches!(w[1], b'8' | b'9' | b'a'..=b'f' | b'A'..=b'F') && w[2].is_ascii_hexdigit())
}

pub const ERRKIND_NAMES: [&str; 7] = ["", "User", "InvalidToken", "UnrecognizedEof", "UnrecognizedToken", "ExtraToken", "NotParseError"];

impl Obs {
    fn new() -> Obs {
        Obs { codes: [0; N_EP * SLOTS], errkind: [0; N_EP], anomalies: vec![], calls: 0, pretty_render_failed: 0, display_skipped: 0, skip_display: 0 }
    }
    fn set(&mut self, ep: usize, slot: usize, v: u8) {
        self.codes[ep * SLOTS + slot] = v;
    }
    pub fn get(&self, ep: usize, slot: usize) -> u8 {
        self.codes[ep * SLOTS + slot]
    }
    fn panic(&mut self, ep: usize, stage: &str, msg: String) {
        self.anomalies.push(Anom {
            ep: format!("{}/{}", EP_NAMES[ep], stage),
            class: "panic",
            keymsg: normalise_panic(&msg),
            detail: msg,
        });
    }
    fn anomaly(&mut self, ep: usize, stage: &str, class: &'static str, keymsg: &str, detail: String) {
        self.anomalies.push(Anom { ep: format!("{}/{}", EP_NAMES[ep], stage), class, keymsg: keymsg.to_string(), detail });
    }
    pub fn hex(&self) -> String {
        self.codes.iter().map(|c| char::from_digit(*c as u32, 16).unwrap_or('?')).collect()
    }
    pub fn accepted_somewhere(&self) -> bool {
        (0..N_EP).any(|ep| self.get(ep, 0) == 1)
    }
}

pub fn codes_have_panic(hexcodes: &str) -> bool {
    hexcodes.contains('3')
}

pub fn describe_codes(hexcodes: &str) -> String {
    let cs: Vec<char> = hexcodes.chars().collect();
    let mut out = vec![];
    for ep in 0..N_EP {
        let g = |s: usize| cs.get(ep * SLOTS + s).copied().unwrap_or('?');
        let p = match g(0) {
            '1' => "Ok",
            '2' => "Err",
            '3' => "PANIC",
            _ => "?",
        };
        let f = match g(1) {
            '1' => "+follow Ok",
            '2' => "+follow Err",
            '3' => "+follow PANIC",
            _ => "",
        };
        let d = match g(2) {
            '2' => "+bad label",
            '3' => "+report PANIC",
            _ => "",
        };
        let q = match g(3) {
            '2' => "+pretty Ok?!",
            '3' => "+pretty PANIC",
            _ => "",
        };
        out.push(format!("{}={p}{f}{d}{q}", EP_NAMES[ep]));
    }
    format!("[{}]", out.join(" "))
}

/// `msg @ /abs/path/file.rs:line` -> stable key text: digits and quoted input fragments
/// in the message are masked, the path is made independent of the build directory.
pub fn normalise_panic(full: &str) -> String {
    let (msg, loc) = match full.rsplit_once(" @ ") {
        Some((m, l)) => (m, l),
        None => (full, ""),
    };
    let mut m = String::new();
    let mut in_tick = false;
    let mut last_digit = false;
    for c in msg.chars() {
        if c == '`' {
            in_tick = !in_tick;
            m.push('`');
            last_digit = false;
            continue;
        }
        if in_tick {
            continue;
        }
        if c.is_ascii_digit() {
            if !last_digit {
                m.push('N');
            }
            last_digit = true;
        } else {
            last_digit = false;
            m.push(if c.is_whitespace() { '_' } else { c });
        }
    }
    let m: String = m.chars().take(100).collect();
    let loc = if let Some(i) = loc.find("/out/") {
        format!("out/{}", &loc[i + 5..])
    } else if let Some(i) = loc.find("/rust/") {
        loc[i + 6..].to_string()
    } else if let Some(i) = loc.find("/registry/src/") {
        loc[i + 14..].split_once('/').map(|x| x.1.to_string()).unwrap_or_else(|| loc.to_string())
    } else if let Some(i) = loc.find("/library/") {
        loc[i + 1..].to_string()
    } else {
        loc.to_string()
    };
    format!("{m}@{loc}")
}

fn on_error(ep: usize, input: &str, e: &Error, o: &mut Obs) {
    o.set(ep, 0, 2);
    let is_parse = matches!(e, Error::Parse(_));
    o.errkind[ep] = if is_parse { 1 } else { 6 };
    if !is_parse {
        o.anomaly(ep, "parse", "error-without-location", "not_Error::Parse", "parser returned an error that is not Error::Parse".to_string());
    }
    if o.skip_display & (1 << ep) != 0 {
        o.display_skipped += 1;
    } else {
        o.calls += 1;
        match call(ep, "display", || e.to_string()) {
            Err(p) => {
                o.panic(ep, "display", p);
                o.set(ep, 2, PANIC);
            }
            Ok(text) => {
                if STAGE_TRACE.load(std::sync::atomic::Ordering::Relaxed) {
                    eprintln!("ERRTEXT {}: {:?}", EP_NAMES[ep], text);
                }
            }
        }
    }
    o.calls += 1;
    match call(ep, "report", || e.report()) {
        Err(p) => {
            o.panic(ep, "report", p);
            o.set(ep, 2, PANIC);
        }
        Ok(d) => {
            let bad = if d.labels.len() != 1 {
                Some(("labels!=1", format!("{} labels", d.labels.len())))
            } else {
                let l = &d.labels[0];
                if is_parse {
                    // error.rs names the lalrpop error variant in the label message
                    o.errkind[ep] = match l.message.as_str() {
                        "Invalid token" => 2,
                        "Unexpected EOF" => 3,
                        "Unexpected token" => 4,
                        "Extra token" => 5,
                        _ => 1,
                    };
                }
                let r = &l.range;
                if r.start > r.end {
                    Some(("start>end", format!("label {}..{} for input of {} bytes", r.start, r.end, input.len())))
                } else if r.end > input.len() + 1 {
                    Some(("end>len+1", format!("label {}..{} for input of {} bytes", r.start, r.end, input.len())))
                } else {
                    None
                }
            };
            if o.get(ep, 2) != PANIC {
                o.set(ep, 2, if bad.is_some() { 2 } else { 1 });
            }
            if let Some((k, detail)) = bad {
                o.anomaly(ep, "report", "bad-label", k, detail);
            }
        }
    }
}

fn after_pretty<T>(ep: usize, r: Result<Result<T, Error>, String>, o: &mut Obs) {
    o.calls += 1;
    match r {
        Err(p) => {
            o.panic(ep, "pretty", p);
            o.set(ep, 3, PANIC);
        }
        Ok(Ok(_)) => {
            o.set(ep, 3, 2);
            o.anomaly(ep, "pretty", "pretty-mismatch", "Ok_after_Err", "pretty_parse returned Ok although parse returned Err".to_string());
        }
        Ok(Err(e)) => {
            o.set(ep, 3, 1);
            if !matches!(e, Error::Parse(_)) {
                // the diagnostic could not be rendered (codespan refused the label)
                o.pretty_render_failed += 1;
            }
        }
    }
}

fn run_fromstr<T>(ep: usize, input: &str, pretty: bool, o: &mut Obs, follow: impl FnOnce(T, &mut Obs) -> u8)
where
    T: FromStr<Err = Error>,
{
    o.calls += 1;
    match call(ep, "parse", || input.parse::<T>()) {
        Err(p) => {
            o.set(ep, 0, PANIC);
            o.panic(ep, "parse", p);
        }
        Ok(Ok(t)) => {
            o.set(ep, 0, 1);
            let f = follow(t, o);
            o.set(ep, 1, f);
        }
        Ok(Err(e)) => {
            on_error(ep, input, &e, o);
            if pretty {
                let r = call(ep, "pretty", || pretty_parse::<T>("name", input));
                after_pretty(ep, r, o);
            }
        }
    }
}

/// Ok -> 1, Err -> 2, panic -> 3 (recorded)
fn res<T, E>(ep: usize, stage: &str, r: Result<Result<T, E>, String>, o: &mut Obs) -> (u8, Option<T>) {
    o.calls += 1;
    match r {
        Ok(Ok(t)) => (1, Some(t)),
        Ok(Err(_)) => (2, None),
        Err(p) => {
            o.panic(ep, stage, p);
            (PANIC, None)
        }
    }
}

fn plain<T>(ep: usize, stage: &str, r: Result<T, String>, o: &mut Obs) -> (u8, Option<T>) {
    o.calls += 1;
    match r {
        Ok(t) => (1, Some(t)),
        Err(p) => {
            o.panic(ep, stage, p);
            (PANIC, None)
        }
    }
}

fn follow_args(ep: usize, args: IDLArgs, o: &mut Obs) -> u8 {
    let mut code = 1;
    let (c, _) = plain(ep, "to_string", call(ep, "to_string", || args.to_string()), o);
    code = code.max(c);
    let (c, tys) = plain(ep, "get_types", call(ep, "get_types", || args.get_types()), o);
    code = code.max(c);
    if let Some(tys) = tys {
        let (c, ann) = res(ep, "annotate_types", call(ep, "annotate_types", || args.clone().annotate_types(true, &TypeEnv::new(), &tys)), o);
        code = code.max(c);
        if let Some(ann) = ann {
            let (c, _) = plain(ep, "annotated.to_string", call(ep, "annotated.to_string", || ann.to_string()), o);
            code = code.max(c);
        }
    }
    code
}

fn follow_value(ep: usize, v: IDLValue, o: &mut Obs) -> u8 {
    let mut code = 1;
    let (c, _) = plain(ep, "to_string", call(ep, "to_string", || v.to_string()), o);
    code = code.max(c);
    let (c, ty) = plain(ep, "value_ty", call(ep, "value_ty", || v.value_ty()), o);
    code = code.max(c);
    if let Some(ty) = ty {
        let (c, ann) = res(ep, "annotate_type", call(ep, "annotate_type", || v.annotate_type(true, &TypeEnv::new(), &ty)), o);
        code = code.max(c);
        if let Some(ann) = ann {
            let (c, _) = plain(ep, "annotated.to_string", call(ep, "annotated.to_string", || ann.to_string()), o);
            code = code.max(c);
        }
    }
    code
}

fn follow_test(ep: usize, t: Test, o: &mut Obs) -> u8 {
    let Test { defs, asserts } = t;
    let prog = IDLProg { decs: defs, actor: None };
    let mut env = TypeEnv::new();
    let (mut code, ok) = res(ep, "check_prog(defs)", call(ep, "check_prog(defs)", || check_prog(&mut env, &prog)), o);
    if ok.is_none() {
        return code;
    }
    for a in &asserts {
        let mut types = vec![];
        let mut all = true;
        for ty in &a.typ {
            let (c, t) = res(ep, "ast_to_type(assert)", call(ep, "ast_to_type(assert)", || ast_to_type(&env, &ty.typ)), o);
            code = code.max(c);
            match t {
                Some(t) => types.push(t),
                None => all = false,
            }
        }
        if !all {
            continue;
        }
        // textual inputs only: parse_idl_args + annotate_types (binary inputs belong to the decoder)
        for inp in std::iter::once(&a.left).chain(a.right.iter()) {
            if let Input::Text(_) = inp {
                let (c, _) = res(ep, "Input::parse(text)", call(ep, "Input::parse(text)", || inp.parse(&env, &types)), o);
                // an Err here is a failed assertion of the script, not a rejected script
                if c == PANIC {
                    code = PANIC;
                }
            }
        }
        let _ = call(ep, "desc", || a.desc());
    }
    code
}

/// Send one input to every entry point.
pub fn eval(input: &str, pretty: bool, skip_display_if_quarantined: bool, dskip: u32) -> Obs {
    let mut o = Obs::new();
    o.skip_display = if skip_display_if_quarantined && quarantined(input) { u32::MAX } else { dskip };
    run_fromstr::<IDLProg>(0, input, pretty, &mut o, |p, o| res(0, "check_prog", call(0, "check_prog", || check_prog(&mut TypeEnv::new(), &p)), o).0);
    run_fromstr::<IDLType>(1, input, pretty, &mut o, |t, o| res(1, "ast_to_type", call(1, "ast_to_type", || ast_to_type(&TypeEnv::new(), &t)), o).0);
    run_fromstr::<IDLTypes>(2, input, pretty, &mut o, |ts, o| {
        let mut code = 1;
        for a in &ts.args {
            code = code.max(res(2, "ast_to_type", call(2, "ast_to_type", || ast_to_type(&TypeEnv::new(), &a.typ)), o).0);
        }
        code
    });
    run_fromstr::<IDLInitArgs>(3, input, pretty, &mut o, |ia, o| {
        res(3, "check_init_args", call(3, "check_init_args", || check_init_args(&mut TypeEnv::new(), &TypeEnv::new(), &ia)), o).0
    });
    run_fromstr::<Test>(4, input, pretty, &mut o, |t, o| follow_test(4, t, o));
    // the two function entry points
    o.calls += 1;
    match call(5, "parse", || parse_idl_args(input)) {
        Err(p) => {
            o.set(5, 0, PANIC);
            o.panic(5, "parse", p);
        }
        Ok(Ok(args)) => {
            o.set(5, 0, 1);
            let f = follow_args(5, args, &mut o);
            o.set(5, 1, f);
        }
        Ok(Err(e)) => {
            on_error(5, input, &e, &mut o);
            if pretty {
                let r = call(5, "pretty", || pretty_wrap("name", input, parse_idl_args));
                after_pretty(5, r, &mut o);
            }
        }
    }
    o.calls += 1;
    match call(6, "parse", || parse_idl_value(input)) {
        Err(p) => {
            o.set(6, 0, PANIC);
            o.panic(6, "parse", p);
        }
        Ok(Ok(v)) => {
            o.set(6, 0, 1);
            let f = follow_value(6, v, &mut o);
            o.set(6, 1, f);
        }
        Ok(Err(e)) => {
            on_error(6, input, &e, &mut o);
            if pretty {
                let r = call(6, "pretty", || pretty_wrap("name", input, parse_idl_value));
                after_pretty(6, r, &mut o);
            }
        }
    }
    o
}
