//! C13 — the text parsers return a result for every input (E1 + E3, both profiles).
//!
//! See /verif/DESIGN.md section 5 "C13" and /verif/mc/README-dev.md.
//!
//! Architecture: the binary started with `--tier` is an *orchestrator*. It never calls the
//! subject itself; every call into `/repo` happens in child processes (`--worker` = this
//! binary = checked profile, `$MC_RELEASE_DIR/c13 --worker-release` = release profile) whose
//! stderr is /dev/null (`pretty_parse` renders diagnostics to stderr) and whose death
//! (stack overflow, abort, hang) is a verdict about the input they were running. Input
//! families are pure functions `(family, index) -> String` compiled into both binaries, so
//! the orchestrator only ships index ranges and compares per-chunk hashes of the per-input
//! outcome vectors of the two profiles (re-querying exact inputs on a mismatch).
mod families;
mod subject;
mod worker;

use families::Family;
use mclib::engine::{finish, install_quiet_panic_hook, mk_key, Ctx, Report, Tier, Violation};
use serde_json::{json, Value};
use std::collections::BTreeMap;
use std::io::{BufRead, BufReader, Write};
use std::path::PathBuf;
use std::process::{Child, ChildStdin, ChildStdout, Command, Stdio};
use std::sync::Mutex;

pub const MIB: u64 = 1024 * 1024;
/// stack of the thread that runs ordinary families ("main-thread-sized")
pub const DEFAULT_STACK: u64 = 8 * MIB;
pub const NEST_STACK: u64 = 64 * MIB;

fn parse_args() -> (Tier, Option<String>, Vec<String>) {
    let args: Vec<String> = std::env::args().collect();
    let mut tier = match std::env::var("VERIF_TIER").as_deref() {
        Ok("thorough") => Tier::Thorough,
        _ => Tier::Quick,
    };
    let mut replay = None;
    let mut rest = vec![];
    let mut i = 1;
    while i < args.len() {
        match args[i].as_str() {
            "--tier" => {
                i += 1;
                tier = if args.get(i).map(|s| s.as_str()) == Some("thorough") { Tier::Thorough } else { Tier::Quick };
            }
            "--replay" => {
                i += 1;
                replay = args.get(i).cloned();
            }
            o => rest.push(o.to_string()),
        }
        i += 1;
    }
    (tier, replay, rest)
}

// ---------------------------------------------------------------------------------------
// worker handles
// ---------------------------------------------------------------------------------------

#[derive(Clone, Debug)]
pub struct Anomaly {
    pub count: u64,
    pub idx: u64,
    pub ep: String,
    pub class: String,
    pub keymsg: String,
    pub detail: String,
}
impl Anomaly {
    fn key(&self) -> String {
        if self.ep.ends_with("/display") && self.class == "panic" {
            // same key as a fatal crash of that stage (death_key)
            return format!("{}|crash|formatting_the_returned_error", self.ep);
        }
        format!("{}|{}|{}", self.ep, self.class, self.keymsg)
    }
}

#[derive(Default, Debug)]
struct Reply {
    hash: u64,
    n: u64,
    calls: u64,
    counters: BTreeMap<String, u64>,
    anomalies: Vec<Anomaly>,
    details: Vec<(u64, String)>,
}

#[derive(Debug)]
struct Death {
    /// last `AT <i>` seen (trace mode) or index named by the watchdog
    last_at: Option<u64>,
    how: String,
}

struct Worker {
    child: Child,
    stdin: ChildStdin,
    stdout: BufReader<ChildStdout>,
}

impl Drop for Worker {
    fn drop(&mut self) {
        let _ = self.child.kill();
        let _ = self.child.wait();
    }
}

#[derive(Clone)]
struct Exes {
    checked: PathBuf,
    release: Option<PathBuf>,
}

impl Exes {
    fn exe(&self, profile: &str) -> Option<(&PathBuf, &'static str)> {
        match profile {
            "checked" => Some((&self.checked, "--worker")),
            _ => self.release.as_ref().map(|p| (p, "--worker-release")),
        }
    }
    fn spawn(&self, profile: &str) -> Option<Worker> {
        let (exe, flag) = self.exe(profile)?;
        Worker::spawn(exe, flag, None).ok()
    }
    /// Re-run one literal input with stage tracing and stderr captured; if the worker dies,
    /// return (entry point/stage that was running, last message on stderr).
    fn diagnose_death(&self, profile: &str, input: &str, pretty: bool, stack: u64, dskip: u32) -> Option<(String, String)> {
        static N: std::sync::atomic::AtomicU64 = std::sync::atomic::AtomicU64::new(0);
        let n = N.fetch_add(1, std::sync::atomic::Ordering::Relaxed);
        let path = std::env::temp_dir().join(format!("c13-diag-{}-{n}.txt", std::process::id()));
        let (exe, flag) = self.exe(profile)?;
        let mut w = Worker::spawn(exe, flag, Some(&path)).ok()?;
        w.hello()?;
        w.send(&format!("RUN lit:{} 0 1 {} {} run 0 {dskip}", hex::encode(input.as_bytes()), pretty as u8, stack));
        let r = w.read_reply();
        let text = std::fs::read(&path).map(|b| String::from_utf8_lossy(&b).to_string()).unwrap_or_default();
        let _ = std::fs::remove_file(&path);
        let d = r.err()?;
        let mut stage = "unknown-stage".to_string();
        let mut tail: Vec<&str> = vec![];
        for l in text.lines() {
            if let Some(s) = l.strip_prefix("STAGE ") {
                stage = s.trim().to_string();
                tail.clear();
            } else if !l.trim().is_empty() {
                tail.push(l.trim());
            }
        }
        // the abort message is what the runtime printed last; pretty_parse output may precede it
        let msg = if let Some(l) = tail.iter().rev().find(|l| l.starts_with("C13-PANIC: ")) {
            l.trim_start_matches("C13-PANIC: ").to_string()
        } else if let Some(l) = tail.iter().rev().find(|l| l.contains("overflowed its stack") || l.contains("stack overflow") || l.contains("memory allocation")) {
            l.to_string()
        } else {
            d.how.clone()
        };
        let msg = msg.trim().to_string();
        Some((stage, format!("{msg} [{}]", d.how)))
    }
}

impl Worker {
    fn spawn(exe: &PathBuf, flag: &str, stderr_to: Option<&PathBuf>) -> std::io::Result<Worker> {
        let mut cmd = Command::new(exe);
        cmd.arg(flag).stdin(Stdio::piped()).stdout(Stdio::piped()).env("NO_COLOR", "1");
        match stderr_to {
            Some(p) => {
                cmd.stderr(Stdio::from(std::fs::File::create(p)?)).env("C13_STAGE_TRACE", "1");
            }
            None => {
                cmd.stderr(Stdio::null()).env_remove("C13_STAGE_TRACE");
            }
        }
        let mut child = cmd.spawn()?;
        let stdin = child.stdin.take().unwrap();
        let stdout = BufReader::new(child.stdout.take().unwrap());
        Ok(Worker { child, stdin, stdout })
    }
    /// `HELLO <profile> <fingerprint>`
    fn hello(&mut self) -> Option<(String, String)> {
        let mut line = String::new();
        self.stdout.read_line(&mut line).ok()?;
        let mut it = line.split_whitespace();
        if it.next()? != "HELLO" {
            return None;
        }
        Some((it.next()?.to_string(), it.next()?.to_string()))
    }
    fn send(&mut self, cmd: &str) {
        // a write error means the worker is dead; the following read reports it
        let _ = writeln!(self.stdin, "{cmd}");
        let _ = self.stdin.flush();
    }
    fn read_reply(&mut self) -> Result<Reply, Death> {
        let mut r = Reply::default();
        let mut last_at = None;
        let mut raw: Vec<u8> = Vec::new();
        loop {
            raw.clear();
            // worker lines may carry non-UTF-8 bytes (messages quoting a corrupt token)
            let n = self.stdout.read_until(b'\n', &mut raw).unwrap_or(0);
            let line = String::from_utf8_lossy(&raw);
            if n == 0 {
                let how = match self.child.wait() {
                    Ok(st) => describe_status(&st),
                    Err(e) => format!("wait failed: {e}"),
                };
                return Err(Death { last_at, how });
            }
            let l = line.trim_end_matches('\n');
            if let Some(rest) = l.strip_prefix("AT ") {
                last_at = rest.trim().parse().ok();
            } else if let Some(rest) = l.strip_prefix("O ") {
                let mut it = rest.splitn(2, ' ');
                let i = it.next().and_then(|s| s.parse().ok()).unwrap_or(0);
                r.details.push((i, it.next().unwrap_or("").to_string()));
            } else if let Some(rest) = l.strip_prefix("A ") {
                let mut it = rest.splitn(3, ' ');
                let count = it.next().and_then(|s| s.parse().ok()).unwrap_or(1);
                let idx = it.next().and_then(|s| s.parse().ok()).unwrap_or(0);
                let v: Value = serde_json::from_str(it.next().unwrap_or("[]")).unwrap_or(Value::Null);
                let g = |i: usize| v.get(i).and_then(|x| x.as_str()).unwrap_or("").to_string();
                r.anomalies.push(Anomaly { count, idx, ep: g(0), class: g(1), keymsg: g(2), detail: g(3) });
            } else if let Some(rest) = l.strip_prefix("HANG ") {
                let i = rest.trim().parse().ok();
                let _ = self.child.kill();
                let _ = self.child.wait();
                return Err(Death { last_at: i, how: "hang (no progress on one input for the watchdog period)".into() });
            } else if let Some(rest) = l.strip_prefix("ERR ") {
                eprintln!("ENGINE-ERROR: worker reported: {rest}");
                std::process::exit(2);
            } else if let Some(rest) = l.strip_prefix("DONE ") {
                let mut it = rest.split_whitespace();
                r.hash = it.next().and_then(|s| u64::from_str_radix(s, 16).ok()).unwrap_or(0);
                r.n = it.next().and_then(|s| s.parse().ok()).unwrap_or(0);
                r.calls = it.next().and_then(|s| s.parse().ok()).unwrap_or(0);
                for kv in it {
                    if let Some((k, v)) = kv.rsplit_once('=') {
                        r.counters.insert(k.to_string(), v.parse().unwrap_or(0));
                    }
                }
                return Ok(r);
            }
        }
    }
}

fn describe_status(st: &std::process::ExitStatus) -> String {
    use std::os::unix::process::ExitStatusExt;
    if let Some(sig) = st.signal() {
        let name = match sig {
            6 => "SIGABRT",
            11 => "SIGSEGV",
            7 => "SIGBUS",
            9 => "SIGKILL",
            4 => "SIGILL",
            _ => "signal",
        };
        format!("killed by {name} ({sig})")
    } else {
        format!("exit status {}", st.code().unwrap_or(-1))
    }
}

/// Key and message of a worker death on `input`.
#[allow(clippy::too_many_arguments)]
fn death_key(exes: &Exes, profile: &str, input: &str, pretty: bool, stack: u64, dskip: u32, how: &str) -> (String, String, Option<String>) {
    let class = if how.contains("hang") { "hang" } else { "abort" };
    match exes.diagnose_death(profile, input, pretty, stack, dskip) {
        Some((stage, msg)) => {
            let core = msg.rsplit_once(" [").map(|x| x.0).unwrap_or(&msg);
            (
                if stage.ends_with("/display") && class == "abort" {
                    // formatting a corrupt token is undefined behaviour: the message depends on
                    // the build; one key per entry point (see Anomaly::key)
                    format!("{stage}|crash|formatting_the_returned_error")
                } else {
                    format!("{stage}|{class}|{}", subject::normalise_panic(core))
                },
                format!("[{stage}] {profile} worker process died ({how}) while running this input: {msg}"),
                Some(stage),
            )
        }
        None => (
            format!("all|{class}|worker_{}", how.split(" (").next().unwrap_or(how)),
            format!("{profile} worker process died ({how}) while running this input (death did not recur under stage tracing)"),
            None,
        ),
    }
}

/// bit of the entry point whose Display stage is named by `stage` ("IDLProg/display")
fn display_bit(stage: &str) -> Option<u32> {
    let ep = stage.strip_suffix("/display")?;
    subject::EP_NAMES.iter().position(|n| *n == ep).map(|i| 1u32 << i)
}

// ---------------------------------------------------------------------------------------
// violation aggregation: one key per (entry point, failure class), shortest input kept
// ---------------------------------------------------------------------------------------

#[derive(Clone, Debug)]
struct AggEntry {
    count: u64,
    per_profile: BTreeMap<String, u64>,
    input: String,
    family: String,
    index: u64,
    pretty: bool,
    stack: u64,
    dskip: u32,
    msg: String,
}

#[derive(Default)]
struct Agg {
    entries: BTreeMap<String, AggEntry>,
}

impl Agg {
    #[allow(clippy::too_many_arguments)]
    fn add(&mut self, key: &str, profile: &str, count: u64, input: String, lvl: &Level, index: u64, msg: String) {
        let e = self.entries.entry(key.to_string()).or_insert_with(|| AggEntry {
            count: 0,
            per_profile: BTreeMap::new(),
            input: input.clone(),
            family: lvl.family.clone(),
            index,
            pretty: lvl.pretty,
            stack: lvl.stack,
            dskip: lvl.dskip,
            msg: msg.clone(),
        });
        e.count += count;
        *e.per_profile.entry(profile.to_string()).or_insert(0) += count;
        // deterministic representative: shortest input, then smallest text
        if (input.len(), &input) < (e.input.len(), &e.input) {
            e.input = input;
            e.family = lvl.family.clone();
            e.index = index;
            e.pretty = lvl.pretty;
            e.stack = lvl.stack;
            e.dskip = lvl.dskip;
            e.msg = msg;
        }
    }
}

// ---------------------------------------------------------------------------------------
// levels
// ---------------------------------------------------------------------------------------

#[derive(Clone, Debug)]
struct Level {
    name: String,
    family: String,
    total: u64,
    chunk: u64,
    pretty: bool,
    stack: u64,
    /// inputs per worker request (a death loses at most this much work)
    sub: u64,
    /// skip the Display stage on quarantined inputs (see subject::quarantined)
    quar: bool,
    /// bit ep = skip the Display stage of that entry point (set only when re-running an input
    /// whose Display stage of that entry point has just killed a worker)
    dskip: u32,
    /// the inputs of this level also occur in another level (not counted as new states)
    subset: bool,
}

struct Pair {
    checked: Worker,
    release: Option<Worker>,
}

/// Process spawns are expensive here (~0.1-0.3 s): worker pairs are kept across levels.
struct Pooled<'a> {
    pair: Option<Pair>,
    pool: &'a Mutex<Vec<Pair>>,
}
impl Drop for Pooled<'_> {
    fn drop(&mut self) {
        if let Some(p) = self.pair.take() {
            self.pool.lock().unwrap().push(p);
        }
    }
}

fn run_cmd(lvl: &Level, lo: u64, hi: u64, mode: &str) -> String {
    format!("RUN {} {} {} {} {} {} {} {}", lvl.family, lo, hi, lvl.pretty as u8, lvl.stack, mode, lvl.quar as u8, lvl.dskip)
}

/// Identify the input in `lo..hi` on which a fresh worker of `profile` dies.
fn find_killer(exes: &Exes, profile: &str, lvl: &Level, lo: u64, hi: u64) -> Option<(u64, String)> {
    let mut w = exes.spawn(profile)?;
    w.hello()?;
    w.send(&run_cmd(lvl, lo, hi, "trace"));
    match w.read_reply() {
        Ok(_) => None,
        Err(d) => d.last_at.map(|i| (i, d.how)),
    }
}

struct Shared<'a> {
    exes: &'a Exes,
    agg: &'a Mutex<Agg>,
}

static POOL: Mutex<Vec<Pair>> = Mutex::new(Vec::new());

fn respawn(exes: &Exes, profile: &str) -> Worker {
    let mut w = exes.spawn(profile).unwrap_or_else(|| {
        eprintln!("ENGINE-ERROR: cannot spawn {profile} worker");
        std::process::exit(2)
    });
    if w.hello().is_none() {
        eprintln!("ENGINE-ERROR: {profile} worker did not greet");
        std::process::exit(2);
    }
    w
}

/// Worker deaths are expensive (respawn, re-run under stage tracing, for hangs a watchdog period each). A change
/// that makes a whole class of inputs fatal would otherwise keep the run busy for hours: after this many deaths
/// the remaining ranges are skipped (reported as not explored); the deaths seen so far are violations already.
const DEATH_BUDGET: u64 = 40;
static DEATHS: std::sync::atomic::AtomicU64 = std::sync::atomic::AtomicU64::new(0);

fn process_range(sh: &Shared, pair: &mut Pair, lvl: &Level, fam: &Family, lo: u64, hi: u64, rep: &mut Report) {
    if lo >= hi {
        return;
    }
    if DEATHS.load(std::sync::atomic::Ordering::Relaxed) >= DEATH_BUDGET {
        rep.count("inputs_skipped_after_death_budget", hi - lo);
        return;
    }
    let cmd = run_cmd(lvl, lo, hi, "run");
    pair.checked.send(&cmd);
    if let Some(r) = pair.release.as_mut() {
        r.send(&cmd);
    }
    let rc = pair.checked.read_reply();
    let rr = pair.release.as_mut().map(|r| r.read_reply());
    // deaths first
    let mut died: Vec<(&str, Death)> = vec![];
    let rc = match rc {
        Ok(r) => Some(r),
        Err(d) => {
            pair.checked = respawn(sh.exes, "checked");
            died.push(("checked", d));
            None
        }
    };
    let rr = match rr {
        Some(Ok(r)) => Some(r),
        Some(Err(d)) => {
            pair.release = Some(respawn(sh.exes, "release"));
            died.push(("release", d));
            None
        }
        None => None,
    };
    if !died.is_empty() {
        // the earliest killer input of the range (either profile)
        let mut killers: Vec<(u64, &str, String)> = vec![];
        for (profile, d) in &died {
            let k = match d.last_at {
                Some(i) => Some((i, d.how.clone())),
                None if lo + 1 == hi => Some((lo, d.how.clone())),
                None => find_killer(sh.exes, profile, lvl, lo, hi),
            };
            match k {
                Some((k, how)) if k >= lo && k < hi => killers.push((k, profile, how)),
                _ => {
                    rep.notes.push(format!(
                        "level {}: {profile} worker died on range {lo}..{hi} ({}) but the death did not recur under trace; range re-run",
                        lvl.name, d.how
                    ));
                    rep.count("worker_deaths_not_recurring", 1);
                }
            }
        }
        if killers.is_empty() {
            // retry; if workers keep dying without a culprit this is a machinery problem
            static RETRIES: std::sync::atomic::AtomicU64 = std::sync::atomic::AtomicU64::new(0);
            if RETRIES.fetch_add(1, std::sync::atomic::Ordering::Relaxed) > 20 {
                eprintln!("ENGINE-ERROR: workers keep dying without an identifiable input");
                std::process::exit(2);
            }
            process_range(sh, pair, lvl, fam, lo, hi, rep);
            return;
        }
        let k = killers.iter().map(|x| x.0).min().unwrap();
        let input = fam.input(k);
        let mut bits = 0u32;
        let mut maskable = true;
        for (kk, profile, how) in &killers {
            if *kk != k {
                continue; // a later killer is met again when the rest of the range is re-run
            }
            let (key, msg, stage) = death_key(sh.exes, profile, &input, lvl.pretty, lvl.stack, lvl.dskip, how);
            sh.agg.lock().unwrap().add(&key, profile, 1, input.clone(), lvl, k, msg);
            rep.count("worker_deaths", 1);
            DEATHS.fetch_add(1, std::sync::atomic::Ordering::Relaxed);
            match stage.as_deref().and_then(display_bit) {
                Some(bit) if lvl.dskip & bit == 0 => bits |= bit,
                _ => maskable = false,
            }
        }
        if maskable && bits != 0 {
            // observe the remaining stages of this input with the fatal Display stage(s) masked
            let mut l2 = lvl.clone();
            l2.dskip |= bits;
            process_range(sh, pair, &l2, fam, k, k + 1, rep);
        } else {
            rep.count(&format!("inputs:{}", lvl.name), 1);
            rep.count("inputs_not_fully_observed_after_worker_death", 1);
            if !lvl.subset {
                rep.states += 1;
            }
        }
        process_range(sh, pair, lvl, fam, lo, k, rep);
        process_range(sh, pair, lvl, fam, k + 1, hi, rep);
        return;
    }
    let rc = rc.unwrap();
    // accounting from the checked worker
    if !lvl.subset {
        rep.states += rc.n;
    }
    rep.evaluations += rc.n * subject::N_EP as u64;
    rep.transitions += rc.calls;
    rep.count(&format!("inputs:{}", lvl.name), rc.n);
    rep.count("subject_calls.checked", rc.calls);
    for (k, v) in &rc.counters {
        if let Some(o) = k.strip_prefix("o:") {
            *rep.outcomes.entry(o.to_string()).or_insert(0) += v;
        } else if k == "nontrivial" {
            rep.nontrivial += v;
        } else {
            rep.count(k, *v);
        }
    }
    {
        let mut agg = sh.agg.lock().unwrap();
        for a in &rc.anomalies {
            agg.add(&a.key(), "checked", a.count, fam.input(a.idx), lvl, a.idx, format!("[{}] {}: {}", a.ep, a.class, a.detail));
        }
        if let Some(rr) = &rr {
            for a in &rr.anomalies {
                agg.add(&a.key(), "release", a.count, fam.input(a.idx), lvl, a.idx, format!("[{}] {}: {}", a.ep, a.class, a.detail));
            }
        }
    }
    if let Some(rr) = rr {
        rep.transitions += rr.calls;
        rep.count("subject_calls.release", rr.calls);
        rep.traces_validated += rr.n;
        rep.count("release_inputs_compared", rr.n);
        if rr.hash != rc.hash || rr.n != rc.n {
            rep.count("chunks_with_profile_difference", 1);
            // re-query exact outcome vectors
            let cmd = run_cmd(lvl, lo, hi, "detail");
            pair.checked.send(&cmd);
            pair.release.as_mut().unwrap().send(&cmd);
            let dc = pair.checked.read_reply();
            let dr = pair.release.as_mut().unwrap().read_reply();
            match (dc, dr) {
                (Ok(dc), Ok(dr)) => {
                    let mr: BTreeMap<u64, &String> = dr.details.iter().map(|(i, s)| (*i, s)).collect();
                    for (i, c) in &dc.details {
                        let r = mr.get(i).map(|s| s.as_str()).unwrap_or("");
                        if c != r {
                            let input = fam.input(*i);
                            if subject::codes_have_panic(c) || subject::codes_have_panic(r) {
                                // same root cause as the panic violation already keyed by entry point
                                rep.count("profile_differences_explained_by_a_panic", 1);
                            } else {
                                let key = format!("profile-disagreement|{}", input);
                                sh.agg.lock().unwrap().add(
                                    &key,
                                    "both",
                                    1,
                                    input,
                                    lvl,
                                    *i,
                                    format!(
                                        "checked and release builds disagree: checked {} release {}",
                                        subject::describe_codes(c),
                                        subject::describe_codes(r)
                                    ),
                                );
                            }
                        }
                    }
                }
                _ => {
                    eprintln!("ENGINE-ERROR: worker died while re-querying details of a range it had survived");
                    std::process::exit(2);
                }
            }
        }
    }
}

fn run_level(ctx: &Ctx, exes: &Exes, agg: &Mutex<Agg>, lvl: &Level) -> Report {
    let fam = Family::parse(&lvl.family).expect("family");
    assert_eq!(fam.size(), lvl.total);
    let nchunks = lvl.total.div_ceil(lvl.chunk);
    let sh = Shared { exes, agg };
    let t0 = std::time::Instant::now();
    let mut rep = ctx.par_range(
        &lvl.name,
        nchunks,
        1,
        || {
            let pooled = POOL.lock().unwrap().pop();
            let pair = pooled.unwrap_or_else(|| {
                let checked = respawn(exes, "checked");
                let release = exes.release.as_ref().map(|_| respawn(exes, "release"));
                Pair { checked, release }
            });
            Pooled { pair: Some(pair), pool: &POOL }
        },
        |pooled, c, rep| {
            let pair = pooled.pair.as_mut().unwrap();
            let lo = c * lvl.chunk;
            let hi = (lo + lvl.chunk).min(lvl.total);
            let fam = Family::parse(&lvl.family).expect("family");
            let mut a = lo;
            while a < hi {
                let b = (a + lvl.sub).min(hi);
                process_range(&sh, pair, lvl, &fam, a, b, rep);
                a = b;
            }
        },
    );
    // par_range counted chunks; restate the level in inputs
    let inputs = rep.counters.get(&format!("inputs:{}", lvl.name)).copied().unwrap_or(0);
    if let Some(l) = rep.levels.last_mut() {
        let completed = l["completed"].as_bool().unwrap_or(false) && inputs == lvl.total;
        *l = json!({"level": lvl.name, "family": lvl.family, "cases": inputs, "total": lvl.total,
                    "chunks_done": l["cases"], "chunks_total": nchunks, "completed": completed, "wall_s": (t0.elapsed().as_secs_f64() * 10.0).round() / 10.0,
                    "pretty_parse": lvl.pretty, "inputs_also_in_another_level": lvl.subset, "stack_bytes": lvl.stack, "display_skipped_on_quarantined_inputs": lvl.quar,
                    "profiles": if exes.release.is_some() { json!(["checked", "release"]) } else { json!(["checked"]) }});
        if !completed {
            rep.exhaustive = false;
        }
    }
    let _ = fam;
    rep
}

/// Informational: smallest thread stack class at which every depth-128 sentence survives.
fn stack_classes_profile(exes: &Exes, agg: &Mutex<Agg>, profile: &str) -> (Report, u64) {
    let mut rep = Report::new();
    let fam = Family::parse("nest").unwrap();
    let templates = families::nest_template_names();
    let classes: [(u64, &str); 3] = [(256 * 1024, "256KiB"), (MIB, "1MiB"), (8 * MIB, "8MiB")];
    let mut cases = 0u64;
    let mut w = respawn(exes, profile);
    let mut need: BTreeMap<&str, Vec<String>> = BTreeMap::new();
    for (t, tname) in templates.iter().enumerate() {
        let idx = (t as u64) * families::NEST_DEPTH + (families::NEST_DEPTH - 1);
        let mut survived_at = None;
        for (bytes, cname) in classes {
            let lvl = Level { name: format!("nest128@{cname}"), family: "nest".into(), total: fam.size(), chunk: 1, pretty: true, stack: bytes, sub: 1, quar: true, dskip: 0, subset: true };
            w.send(&run_cmd(&lvl, idx, idx + 1, "run"));
            cases += 1;
            match w.read_reply() {
                Ok(r) => {
                    rep.transitions += r.calls;
                    survived_at = Some(cname);
                    break;
                }
                Err(d) => {
                    w = respawn(exes, profile);
                    rep.count(&format!("nest128_died.{profile}.{cname}"), 1);
                    if bytes >= DEFAULT_STACK {
                        let input = fam.input(idx);
                        let (key, msg, _) = death_key(exes, profile, &input, true, bytes, 0, &d.how);
                        agg.lock().unwrap().add(&key, profile, 1, input, &lvl, idx, format!("nesting depth 128 ({tname}) on an 8 MiB stack: {msg}"));
                    }
                }
            }
        }
        let c = survived_at.unwrap_or(">8MiB");
        rep.count(&format!("nest128_min_stack.{profile}.{c}"), 1);
        if c != "256KiB" {
            need.entry(c).or_default().push(tname.clone());
        }
    }
    for (c, ts) in need {
        rep.notes.push(format!("depth 128 needs a {c} thread stack in the {profile} build for: {}", ts.join(", ")));
    }
    (rep, cases)
}

/// Informational: smallest thread stack class at which every depth-128 sentence survives.
fn stack_classes(exes: &Exes, agg: &Mutex<Agg>, rep: &mut Report) {
    let mut cases = 0;
    let results: Vec<(Report, u64)> = std::thread::scope(|sc| {
        let hs: Vec<_> = ["checked", "release"]
            .into_iter()
            .filter(|p| exes.exe(p).is_some())
            .map(|p| sc.spawn(move || stack_classes_profile(exes, agg, p)))
            .collect();
        hs.into_iter().map(|h| h.join().expect("stack class thread")).collect()
    });
    for (r, c) in results {
        rep.merge(r);
        cases += c;
    }
    rep.level("iv-nest128-stack-classes(informational)", cases, true);
}

// ---------------------------------------------------------------------------------------
// single literal inputs (recheck, replay)
// ---------------------------------------------------------------------------------------

/// Run one literal input in a fresh worker of `profile`; returns violation keys -> message,
/// and the outcome vector (None if the worker died).
fn observe_literal(exes: &Exes, profile: &str, input: &str, pretty: bool, stack: u64, dskip: u32) -> Option<(BTreeMap<String, String>, Option<String>)> {
    let mut w = exes.spawn(profile)?;
    w.hello()?;
    let fam = format!("lit:{}", hex::encode(input.as_bytes()));
    w.send(&format!("RUN {fam} 0 1 {} {} detail 0 {dskip}", pretty as u8, stack));
    let mut keys = BTreeMap::new();
    match w.read_reply() {
        Ok(r) => {
            for a in &r.anomalies {
                keys.insert(mk_key(&a.key()), format!("[{}] {}: {}", a.ep, a.class, a.detail));
            }
            Some((keys, r.details.first().map(|d| d.1.clone())))
        }
        Err(d) => {
            let (key, msg, _) = death_key(exes, profile, input, pretty, stack, dskip, &d.how);
            keys.insert(mk_key(&key), msg);
            Some((keys, None))
        }
    }
}

/// All violation keys observable on one literal input (both profiles + comparison).
fn observe_all(exes: &Exes, input: &str, pretty: bool, stack: u64, dskip: u32, verbose: bool) -> BTreeMap<String, String> {
    let mut keys = BTreeMap::new();
    let c = observe_literal(exes, "checked", input, pretty, stack, dskip);
    let r = observe_literal(exes, "release", input, pretty, stack, dskip);
    let mut codes = vec![];
    for (p, o) in [("checked", &c), ("release", &r)] {
        if let Some((k, code)) = o {
            for (k, m) in k {
                keys.entry(k.clone()).or_insert(format!("{m} ({p})"));
            }
            if let Some(code) = code {
                codes.push(code.clone());
            }
        }
    }
    for (p, o) in [("checked", &c), ("release", &r)] {
        if let (true, Some((_, Some(code)))) = (verbose, o) {
            println!("observed ({p}): {}", subject::describe_codes(code));
        }
    }
    if codes.len() == 2 && codes[0] != codes[1] && !subject::codes_have_panic(&codes[0]) && !subject::codes_have_panic(&codes[1]) {
        keys.insert(
            mk_key(&format!("profile-disagreement|{input}")),
            format!("checked {} release {}", subject::describe_codes(&codes[0]), subject::describe_codes(&codes[1])),
        );
    }
    keys
}

fn replay(exes: &Exes, path: &str) -> i32 {
    let s = match std::fs::read_to_string(path) {
        Ok(s) => s,
        Err(e) => {
            eprintln!("ENGINE-ERROR: cannot read {path}: {e}");
            return 2;
        }
    };
    let v: Value = match serde_json::from_str(&s) {
        Ok(v) => v,
        Err(e) => {
            eprintln!("ENGINE-ERROR: {path} is not JSON: {e}");
            return 2;
        }
    };
    let case = &v["case"];
    let Some(input) = case["input"].as_str() else {
        eprintln!("ENGINE-ERROR: replay file has no case.input");
        return 2;
    };
    let pretty = case["pretty_parse"].as_bool().unwrap_or(true);
    let stack = case["stack_bytes"].as_u64().unwrap_or(DEFAULT_STACK);
    let want = v["key"].as_str().unwrap_or("");
    println!("replaying input {:?} ({} bytes), stack {} bytes, profiles: checked{}", input, input.len(), stack, if exes.release.is_some() { " + release" } else { "" });
    println!("expected: every entry point returns Ok or Err (diagnostic label within input), identically in both profiles");
    let dskip = case["display_skip_mask"].as_u64().unwrap_or(0) as u32;
    let keys = observe_all(exes, input, pretty, stack, dskip, true);
    let mut hit = false;
    for (k, m) in &keys {
        let same = want.is_empty() || k == want || k.starts_with(want) || want.starts_with(k.as_str());
        if same {
            println!("REPRODUCED {k} :: {m}");
            hit = true;
        } else {
            println!("also observed {k} :: {m}");
        }
    }
    if hit {
        1
    } else if !keys.is_empty() {
        println!("REPRODUCED (different failure class than recorded key {want})");
        1
    } else {
        println!("not reproduced: every entry point returned Ok/Err with a usable diagnostic in all available profiles");
        0
    }
}

// ---------------------------------------------------------------------------------------
// main
// ---------------------------------------------------------------------------------------

fn find_exes(notes: &mut Vec<String>) -> Exes {
    let checked = std::env::current_exe().expect("current_exe");
    let mut release = None;
    match std::env::var("MC_RELEASE_DIR") {
        Ok(d) => {
            let p = PathBuf::from(d).join("c13");
            if p.is_file() {
                // greet to make sure it is a release build of the same families
                match Worker::spawn(&p, "--worker-release", None) {
                    Ok(mut w) => match w.hello() {
                        Some((prof, fp)) if prof == "release" && fp == families::fingerprint() => release = Some(p),
                        Some((prof, fp)) => notes.push(format!(
                            "release binary {} unusable: profile {prof}, family fingerprint {fp} (expected release, {}); release level not run",
                            p.display(),
                            families::fingerprint()
                        )),
                        None => notes.push(format!("release binary {} did not greet; release level not run", p.display())),
                    },
                    Err(e) => notes.push(format!("release binary {} cannot be started: {e}; release level not run", p.display())),
                }
            } else {
                notes.push(format!("release binary {} missing; release level not run", p.display()));
            }
        }
        Err(_) => notes.push("MC_RELEASE_DIR unset; release level not run".into()),
    }
    Exes { checked, release }
}

fn main() {
    let (tier, replay_path, rest) = parse_args();
    if rest.iter().any(|a| a == "--worker" || a == "--worker-release") {
        worker::main();
        return;
    }
    if rest.iter().any(|a| a == "--list") {
        // debugging aid: print every input of a family: c13 --list <family>
        if let Some(f) = rest.iter().skip_while(|a| *a != "--list").nth(1).and_then(|f| Family::parse(f)) {
            for i in 0..f.size() {
                println!("{i}\t{:?}", f.input(i));
            }
        }
        return;
    }
    install_quiet_panic_hook();
    if cfg!(not(debug_assertions)) {
        eprintln!("note: this orchestrator is a release build; its own workers are not overflow-checked");
    }
    let mut notes = vec![];
    let exes = find_exes(&mut notes);
    if let Some(path) = replay_path {
        for n in &notes {
            println!("note: {n}");
        }
        std::process::exit(replay(&exes, &path));
    }

    let ctx = Ctx::new("C13", tier, tier.pick(240, 1100));
    let mut rep = Report::new();
    rep.notes.extend(notes);
    if exes.release.is_none() {
        rep.level("release-profile", 0, false);
    }
    let agg = Mutex::new(Agg::default());

    let full = families::TOKENS_FULL.len();
    let core = families::TOKENS_CORE.len();
    // "(pretty)" levels also call pretty_parse / pretty_wrap (0.05-3 ms per input, it renders to
    // stderr); the other levels check parse, follow-ups, Display and report() only.
    // cp/cl: max characters with/without pretty; fp/fl: same for FULL-alphabet sequences;
    // kp: CORE-alphabet length with pretty; kl: CORE-alphabet length of the longest sequences
    let (cp, cl, fp, fl, kp, kl) = match tier {
        Tier::Quick => (2u32, 3u32, 2u32, 3u32, 3u32, 4u32),
        Tier::Thorough => (3, 4, 3, 4, 3, 5),
    };
    let mk = |name: String, family: String, chunk: u64, sub: u64, pretty: bool, stack: u64, quar: bool| {
        let total = Family::parse(&family).expect("family").size();
        Level { subset: ["quar", "nestP", "mutS"].contains(&family.as_str()) || name.starts_with("ii-tokens-core") && pretty, name, family, total, chunk, pretty, stack, sub, quar, dskip: 0 }
    };
    let mut levels = vec![
        mk("vi-non-utf8-string-literals(pretty)".into(), "quar".into(), 1, 1, true, DEFAULT_STACK, false),
        mk("vii-string-escapes(pretty)".into(), "esc".into(), 64, 64, true, DEFAULT_STACK, true),
        mk("viii-long-multibyte-literals".into(), "long".into(), 256, 128, false, DEFAULT_STACK, true),
        mk("iv-nesting-1..128@64MiB".into(), "nest".into(), 64, 32, tier == Tier::Thorough, NEST_STACK, true),
        mk("iv-nesting-{1,2,3,64,128}@64MiB(pretty)".into(), "nestP".into(), 8, 8, true, NEST_STACK, true),
        mk("iii-E3-seed-mutants".into(), "mut".into(), 512, 128, tier == Tier::Thorough, DEFAULT_STACK, true),
        mk("iii-E3-structural-mutants(pretty)".into(), "mutS".into(), 64, 32, true, DEFAULT_STACK, true),
        mk("v-annotated-numerals(pretty)".into(), "ann".into(), 64, 64, true, DEFAULT_STACK, true),
        mk(format!("i-chars<={cp}(pretty)"), format!("chars:0:{cp}"), 1024, 256, true, DEFAULT_STACK, true),
        mk(format!("i-chars={}..{cl}", cp + 1), format!("chars:{}:{cl}", cp + 1), 16384, 2048, false, DEFAULT_STACK, true),
        mk(format!("ii-tokens-full<={fp}(pretty)"), format!("toksF:0:{fp}"), 1024, 256, true, DEFAULT_STACK, true),
        mk(format!("ii-tokens-full={}..{fl}", fp + 1), format!("toksF:{}:{fl}", fp + 1), 32768, 2048, false, DEFAULT_STACK, true),
        mk(format!("ii-tokens-core={kl}"), format!("toksC:{kl}:{kl}"), 32768, 2048, false, DEFAULT_STACK, true),
    ];
    if kp > fp {
        // pretty_parse over every CORE sequence of length kp (a subset of the FULL sequences above)
        levels.push(mk(format!("ii-tokens-core={kp}(pretty)"), format!("toksC:{kp}:{kp}"), 1024, 256, true, DEFAULT_STACK, true));
    }
    for lvl in &levels {
        if ctx.timed_out() {
            rep.level(&lvl.name, 0, false);
            rep.notes.push(format!("level {}: not started, wall cap", lvl.name));
            continue;
        }
        let r = run_level(&ctx, &exes, &agg, lvl);
        rep.merge(r);
    }
    stack_classes(&exes, &agg, &mut rep);

    // re-check every aggregated violation once on a fresh worker, then hand it to the engine
    let agg = agg.into_inner().unwrap();
    let entries: Vec<(&String, &AggEntry)> = agg.entries.iter().collect();
    let confirmed_all: Vec<bool> = std::thread::scope(|sc| {
        let hs: Vec<_> = entries
            .iter()
            .map(|(key, e)| {
                let exes = &exes;
                sc.spawn(move || {
                    let nkey = mk_key(key);
                    let again = observe_all(exes, &e.input, e.pretty, e.stack, e.dskip, false);
                    again.keys().any(|k| *k == nkey || nkey.starts_with(k.as_str()) || k.starts_with(nkey.as_str()))
                })
            })
            .collect();
        hs.into_iter().map(|h| h.join().unwrap_or(false)).collect()
    });
    for ((key, e), confirmed) in entries.iter().zip(confirmed_all) {
        let nkey = mk_key(key);
        if !confirmed {
            rep.notes.push(format!("violation {nkey} did not recur when its input was re-run alone (kept, flagged recheck=false)"));
        }
        rep.violation_count += e.count;
        rep.violations.push(Violation {
            key: nkey,
            msg: format!("{} [{} failing (input, profile) observations; shortest input shown]", e.msg, e.count),
            case: json!({
                "input": e.input,
                "input_bytes_hex": hex::encode(e.input.as_bytes()),
                "family": e.family,
                "index": e.index,
                "pretty_parse": e.pretty,
                "stack_bytes": e.stack,
                "display_skip_mask": e.dskip,
                "failing_observations": e.count,
                "failing_observations_per_profile": e.per_profile,
                "recheck": confirmed,
            }),
        });
    }
    let fam_sample = Family::parse("mut").unwrap();
    for i in [0u64, 1, 7] {
        rep.sample(json!({"family": "mut", "index": i, "input": fam_sample.input(i)}));
    }
    let famk = Family::parse(&format!("toksC:{kl}:{kl}")).unwrap();
    rep.sample(json!({"family": format!("toksC:{kl}:{kl}"), "index": famk.size() / 3, "input": famk.input(famk.size() / 3)}));
    let famc = Family::parse(&format!("chars:0:{cl}")).unwrap();
    rep.sample(json!({"family": format!("chars:0:{cl}"), "index": famc.size() / 2, "input": famc.input(famc.size() / 2)}));

    let rule = format!(
        "A case is one input string sent to all {n_ep} entry points ({eps}) in a checked-profile worker process and, when available, a release-profile worker process; \
         states = distinct inputs (levels flagged inputs_also_in_another_level are not counted again); evaluations = inputs x entry points per level (checked); transitions = calls into the subject (both profiles); traces_validated = inputs whose outcome vectors (per entry point: parse Ok/Err/panic, follow-up Ok/Err/panic, diagnostic label validity, pretty_parse outcome) were compared between the two profiles. \
         Per entry point: parse; on Ok the follow-ups (IDLProg: check_prog(&mut TypeEnv::new()); IDLType/IDLTypes: ast_to_type per type; IDLInitArgs: check_init_args; Test: check_prog of the defs, ast_to_type of every assertion type, Input::parse of textual left inputs (binary inputs are not decoded); args/value: to_string, get_types/value_ty, annotate_types(true, &TypeEnv::new(), own types), to_string of the result); \
         on Err: the error must be Error::Parse, Display must return, report() must return one label with start <= end <= len+1, and (levels marked pretty_parse) pretty_parse::<T>(\"name\", input) / pretty_wrap must return Err as well. Every call is wrapped in catch(); a dead worker is bisected to the input. \
         Non-trivial (distinct_nontrivial) = inputs accepted (parse Ok) by at least one entry point. \
         Families (a level = a family range; see `levels` for exact ranges and counts): (i) chars:0:{cl} = all strings of 0..={cl} characters over the {nc}-character alphabet {chars:?}; \
         (ii) toksF:0:{fl} = all sequences of 0..={fl} lexemes over the FULL alphabet ({full} lexemes) joined by one space, plus toksC:{kl}:{kl} = all sequences of exactly {kl} lexemes over the CORE alphabet ({core} lexemes, a subset of FULL); pretty_parse is called on the levels marked pretty_parse=true in `levels` (their names end in `(pretty)`), report() and Display on all; FULL = {tf:?}; CORE = {tc:?}; \
         Quarantine: on levels marked display_skipped_on_quarantined_inputs the Display (to_string) stage of errors is skipped for inputs containing a backslash followed by two hex digits >= 0x80 (counter display_stage_skipped_on_quarantined_inputs), because formatting an error that carries a non-UTF-8 text token aborts a debug-assertions build (uncatchable; a process spawn costs ~0.2 s here) and one abort per input would dominate the run; family (vi) quar = {nq} hand-written inputs with such literals in every syntactic position runs with nothing skipped (after an abort in the Display stage of one entry point the input is re-run with only that stage masked, so every entry point is observed). \
         (vii) esc = {nesc} escape sequences (\\u{{D}} for hex digit strings of 1..=12 digits: all zeros, one then zeros, all F, one-zeros-41, zero-padded 41, with `_` separators; surrogate / range boundaries; byte escapes below 0x80; single-character escapes; malformed variants) in {nctx} syntactic positions of a string literal; \
         (viii) long = string literals of 1..=140 copies of a / e-acute / euro sign / emoji behind 0..3 ASCII characters, in 6 shapes whose annotation does not fit the value (error messages quoting the value); \
         (iii) mut = for each of the {ns} seed sentences (arrays of lexemes, see families.rs SEEDS): the seed, every single-lexeme deletion, duplication, replacement by every FULL lexeme, and adjacent swap (mutS = the same without the replacements); \
         (iv) nest = {nt} nesting templates x depth 1..=128 on a 64 MiB thread (nestP = depths 1,2,3,64,128 of the same), plus depth 128 of every template on 256 KiB / 1 MiB / 8 MiB threads (informational except 8 MiB); templates = {tn:?}; \
         (v) ann = every numeral lexeme x sign x annotation type product `( <sign><numeral> : <type> )`. \
         Other families run on an 8 MiB thread. Violation keys = entry point | failure class | normalised panic message @ file:line (shortest failing input recorded; all failing observations counted), profile disagreements not explained by a panic are keyed on the input.",
        n_ep = subject::N_EP,
        nq = families::QUAR.len(),
        nesc = families::escapes().len(),
        nctx = families::ESC_CONTEXTS.len(),
        eps = subject::EP_NAMES.join(", "),
        nc = families::CHARS.len(),
        chars = families::CHARS,
        tf = families::TOKENS_FULL,
        tc = families::TOKENS_CORE,
        ns = families::SEEDS.len(),
        nt = families::nest_template_names().len(),
        tn = families::nest_template_names(),
    );
    let assumptions = [
        "nesting depth claimed only up to 128 (depth counts repetitions of the nesting construct; the wrappers add at most two more levels)",
        "inputs are bounded: <= 4 characters, <= 5 lexemes, or one lexeme away from a seed sentence; long flat inputs (e.g. thousands of consecutive comments) are outside the enumerated scope",
        "binary (blob) inputs of test scripts are parsed but not decoded (decoder is the subject of other properties)",
        "imports are not resolved (check_prog ignores them); check_file is not exercised",
        "checked profile = release optimisation + overflow-checks + debug-assertions, used as the stand-in for a debug build",
    ];
    let extra = json!({
        "profiles_run": if exes.release.is_some() { json!(["checked", "release"]) } else { json!(["checked"]) },
        "alphabet_sizes": {"chars": families::CHARS.len(), "tokens_full": full, "tokens_core": core, "seeds": families::SEEDS.len(), "nest_templates": families::nest_template_names().len()},
        "oracle_traces_validated_against_spec_suite": 0,
    });
    if let Some(n) = rep.counters.get("inputs_skipped_after_death_budget").copied() {
        rep.level("skipped after the worker-death budget was used up", n, false);
        rep.notes.push(format!("{DEATH_BUDGET} worker deaths reached: {n} inputs were not explored (the deaths are reported)"));
    }
    let code = finish(&ctx, rep, &rule, &assumptions, extra);
    std::process::exit(code);
}
