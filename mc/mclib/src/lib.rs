pub mod bridge;
pub mod engine;
pub mod progs;
pub mod scopes;
