pub fn hello() {}
