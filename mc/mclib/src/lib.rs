pub mod bridge;
pub mod engine;
pub mod scopes;
