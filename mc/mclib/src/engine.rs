//! Exploration plumbing shared by all checks: parallel exhaustive iteration over index
//! ranges, panic capture, caps, violation bookkeeping (known findings, replay files) and
//! the evidence file.
use serde_json::{json, Value};
use std::collections::{BTreeMap, BTreeSet};
use std::panic::{catch_unwind, AssertUnwindSafe};
use std::sync::atomic::{AtomicBool, AtomicU64, Ordering};
use std::sync::Mutex;
use std::time::{Duration, Instant};

pub const VERIF_DIR_DEFAULT: &str = "/verif";

/// root of the verification tree (evidence/, replays/, known_findings.txt); the driver exports
/// VERIF_ROOT so that a snapshot of /verif run elsewhere writes into its own tree
pub fn verif_dir() -> String {
    std::env::var("VERIF_ROOT").unwrap_or_else(|_| VERIF_DIR_DEFAULT.to_string())
}

#[derive(Clone, Copy, Debug, PartialEq, Eq)]
pub enum Tier {
    Quick,
    Thorough,
}
impl Tier {
    pub fn name(self) -> &'static str {
        match self {
            Tier::Quick => "quick",
            Tier::Thorough => "thorough",
        }
    }
    pub fn pick<T>(self, q: T, t: T) -> T {
        match self {
            Tier::Quick => q,
            Tier::Thorough => t,
        }
    }
}

thread_local! {
    static LAST_PANIC: std::cell::RefCell<Option<String>> = const { std::cell::RefCell::new(None) };
    static IN_CATCH: std::cell::Cell<u32> = const { std::cell::Cell::new(0) };
}

/// Install a panic hook that records the message (with location) instead of printing it.
pub fn install_quiet_panic_hook() {
    std::panic::set_hook(Box::new(|info| {
        let msg = if let Some(s) = info.payload().downcast_ref::<&str>() {
            s.to_string()
        } else if let Some(s) = info.payload().downcast_ref::<String>() {
            s.clone()
        } else {
            "<non-string panic>".to_string()
        };
        let loc = info.location().map(|l| format!("{}:{}", l.file(), l.line())).unwrap_or_default();
        if IN_CATCH.with(|c| c.get()) == 0 {
            // a panic of the harness itself: machinery failure, make it visible
            eprintln!("ENGINE-PANIC: {msg} @ {loc}");
        }
        LAST_PANIC.with(|p| *p.borrow_mut() = Some(format!("{msg} @ {loc}")));
    }));
}

/// Run `f`, turning an unwind into `Err(message @ file:line)`.
pub fn catch<T>(f: impl FnOnce() -> T) -> Result<T, String> {
    IN_CATCH.with(|c| c.set(c.get() + 1));
    let r = catch_unwind(AssertUnwindSafe(f));
    IN_CATCH.with(|c| c.set(c.get() - 1));
    match r {
        Ok(v) => Ok(v),
        Err(_) => Err(LAST_PANIC.with(|p| p.borrow_mut().take()).unwrap_or_else(|| "panic".into())),
    }
}

#[derive(Clone, Debug)]
pub struct Violation {
    /// canonical key (whitespace-free); matched against known_findings.txt
    pub key: String,
    pub msg: String,
    /// literal case data, enough to re-execute
    pub case: Value,
}

pub fn mk_key(s: &str) -> String {
    s.split_whitespace().collect::<Vec<_>>().join("_")
}

/// Per-thread (mergeable) accounting of one run.
#[derive(Default, Debug)]
pub struct Report {
    pub evaluations: u64,
    pub states: u64,
    pub transitions: u64,
    pub traces_validated: u64,
    pub nontrivial: u64,
    pub counters: BTreeMap<String, u64>,
    /// distinct observed outcome classes (vacuity guard)
    pub outcomes: BTreeMap<String, u64>,
    pub samples: Vec<Value>,
    pub violations: Vec<Violation>,
    pub violation_count: u64,
    /// violations that match a listed known finding: concrete key -> (listed key, occurrences).
    /// They never compete with unlisted violations for the kept slots.
    pub known_hits: BTreeMap<String, (String, u64)>,
    pub notes: Vec<String>,
    pub levels: Vec<Value>,
    pub exhaustive: bool,
}

pub const MAX_KEPT_VIOLATIONS: usize = 400;
pub const MAX_KNOWN_KEYS: usize = 200_000;

static PROPERTY: std::sync::OnceLock<String> = std::sync::OnceLock::new();
static KNOWN: std::sync::OnceLock<KnownFindings> = std::sync::OnceLock::new();
static TIER_NAME: std::sync::OnceLock<String> = std::sync::OnceLock::new();
static CONCRETE: std::sync::OnceLock<Option<BTreeSet<String>>> = std::sync::OnceLock::new();
/// `known_keys/<property>.<tier>.txt` (committed, one concrete key per line): when present, a listed key ending
/// in `*` only covers the concrete keys enumerated there - the exact violations observed on the unchanged tree in
/// that tier (the scopes are enumerated completely, so the set is fixed). Any other violation is reported, even if
/// it shares the prefix. `VERIF_KNOWN_KEYS=off` disables the restriction (used to regenerate the files).
fn concrete_known() -> Option<&'static BTreeSet<String>> {
    CONCRETE
        .get_or_init(|| {
            if std::env::var("VERIF_KNOWN_KEYS").map(|v| v == "off").unwrap_or(false) {
                return None;
            }
            let tier = TIER_NAME.get()?;
            let path = format!("{}/known_keys/{}.{}.txt", verif_dir(), current_property(), tier);
            let s = std::fs::read_to_string(path).ok()?;
            Some(s.lines().map(|l| l.trim_end_matches('\n').to_string()).filter(|l| !l.is_empty()).collect())
        })
        .as_ref()
}
/// the property this process decides (set by `Ctx::new`; known findings are per property)
pub fn current_property() -> String {
    PROPERTY.get().cloned().unwrap_or_default()
}
pub fn known_findings() -> &'static KnownFindings {
    KNOWN.get_or_init(load_known_findings)
}
pub const MAX_SAMPLES: usize = 6;

impl Report {
    pub fn new() -> Self {
        Report { exhaustive: true, ..Default::default() }
    }
    pub fn count(&mut self, k: &str, n: u64) {
        *self.counters.entry(k.to_string()).or_insert(0) += n;
    }
    pub fn outcome(&mut self, k: &str) {
        *self.outcomes.entry(k.to_string()).or_insert(0) += 1;
    }
    pub fn sample(&mut self, v: Value) {
        if self.samples.len() < MAX_SAMPLES {
            self.samples.push(v);
        }
    }
    pub fn violation(&mut self, key: &str, msg: String, case: Value) {
        self.violation_count += 1;
        let key = mk_key(key);
        if let Some((listed, _)) = known_findings().lookup(&current_property(), &key) {
            if self.known_hits.len() < MAX_KNOWN_KEYS || self.known_hits.contains_key(&key) {
                self.known_hits.entry(key).or_insert((listed, 0)).1 += 1;
            }
            return;
        }
        if self.violations.len() < MAX_KEPT_VIOLATIONS && !self.violations.iter().any(|v| v.key == key) {
            self.violations.push(Violation { key, msg, case });
        }
    }
    pub fn merge(&mut self, o: Report) {
        self.evaluations += o.evaluations;
        self.states += o.states;
        self.transitions += o.transitions;
        self.traces_validated += o.traces_validated;
        self.nontrivial += o.nontrivial;
        for (k, v) in o.counters {
            *self.counters.entry(k).or_insert(0) += v;
        }
        for (k, v) in o.outcomes {
            *self.outcomes.entry(k).or_insert(0) += v;
        }
        for s in o.samples {
            self.sample(s);
        }
        self.violation_count += o.violation_count;
        for (k, (l, n)) in o.known_hits {
            if self.known_hits.len() < MAX_KNOWN_KEYS || self.known_hits.contains_key(&k) {
                self.known_hits.entry(k).or_insert((l, 0)).1 += n;
            }
        }
        for v in o.violations {
            if self.violations.len() < MAX_KEPT_VIOLATIONS && !self.violations.iter().any(|x| x.key == v.key) {
                self.violations.push(v);
            }
        }
        self.notes.extend(o.notes);
        self.levels.extend(o.levels);
        self.exhaustive &= o.exhaustive;
    }
    pub fn level(&mut self, name: &str, cases: u64, completed: bool) {
        self.levels.push(json!({"level": name, "cases": cases, "completed": completed}));
        if !completed {
            self.exhaustive = false;
        }
    }
}

pub struct Ctx {
    pub property: String,
    pub tier: Tier,
    pub seed: u64,
    pub threads: usize,
    pub start: Instant,
    pub deadline: Instant,
    pub profile: String,
}

impl Ctx {
    pub fn new(property: &str, tier: Tier, wall_cap_s: u64) -> Ctx {
        let seed = std::env::var("VERIF_SEED").ok().and_then(|s| s.parse().ok()).unwrap_or(0);
        let threads = std::env::var("VERIF_THREADS")
            .ok()
            .and_then(|s| s.parse().ok())
            .unwrap_or_else(|| std::thread::available_parallelism().map(|n| n.get()).unwrap_or(8));
        let start = Instant::now();
        // VERIF_WALL_CAP_S overrides the tier's wall cap (maintenance runs on a loaded machine)
        let wall_cap_s = std::env::var("VERIF_WALL_CAP_S").ok().and_then(|s| s.parse().ok()).unwrap_or(wall_cap_s);
        let _ = PROPERTY.set(property.to_string());
        let _ = TIER_NAME.set(tier.name().to_string());
        Ctx {
            property: property.to_string(),
            tier,
            seed,
            threads,
            start,
            deadline: start + Duration::from_secs(wall_cap_s),
            profile: if cfg!(debug_assertions) { "checked".into() } else { "release".into() },
        }
    }
    pub fn timed_out(&self) -> bool {
        Instant::now() > self.deadline
    }

    /// Exhaustively process indices `0..total` in chunks on `threads` OS threads. Each
    /// thread builds its own state with `init` (the subject's types are `!Send`) and
    /// reports into its own `Report`. Returns the merged report; `completed` is false if
    /// the wall cap stopped the sweep (then the report says how far it got).
    pub fn par_range<S>(
        &self,
        name: &str,
        total: u64,
        chunk: u64,
        init: impl Fn() -> S + Sync,
        work: impl Fn(&mut S, u64, &mut Report) + Sync,
    ) -> Report {
        let next = AtomicU64::new(0);
        let stop = AtomicBool::new(false);
        let merged = Mutex::new(Report::new());
        let done = AtomicU64::new(0);
        let nchunks = total.div_ceil(chunk.max(1));
        // VERIF_SEED only rotates the order in which chunks are handed out
        let rot = if nchunks > 0 { self.seed % nchunks } else { 0 };
        std::thread::scope(|sc| {
            for _ in 0..self.threads.min(nchunks.max(1) as usize) {
                sc.spawn(|| {
                    install_quiet_panic_hook();
                    let mut st = init();
                    let mut rep = Report::new();
                    loop {
                        if stop.load(Ordering::Relaxed) {
                            break;
                        }
                        let c = next.fetch_add(1, Ordering::Relaxed);
                        if c >= nchunks {
                            break;
                        }
                        let c = (c + rot) % nchunks;
                        let lo = c * chunk;
                        let hi = (lo + chunk).min(total);
                        for i in lo..hi {
                            work(&mut st, i, &mut rep);
                        }
                        done.fetch_add(hi - lo, Ordering::Relaxed);
                        if self.timed_out() {
                            stop.store(true, Ordering::Relaxed);
                        }
                    }
                    merged.lock().unwrap().merge(rep);
                });
            }
        });
        let mut rep = merged.into_inner().unwrap();
        let d = done.load(Ordering::Relaxed);
        let completed = d == total;
        rep.level(name, d, completed);
        if !completed {
            rep.notes.push(format!("level {name}: wall cap hit after {d} of {total} cases"));
        }
        rep
    }
}

#[derive(Debug, Default)]
pub struct KnownFindings {
    /// (property, key) -> description
    pub known: BTreeMap<(String, String), String>,
    pub fixed: Vec<String>,
}

impl KnownFindings {
    /// Exact key, or a listed key ending in `*` (a call-site level identification: all
    /// failing inputs that reach the same defect site share the listed prefix).
    pub fn lookup(&self, prop: &str, key: &str) -> Option<(String, String)> {
        if let Some(d) = self.known.get(&(prop.to_string(), key.to_string())) {
            return Some((key.to_string(), d.clone()));
        }
        for ((p, k), d) in &self.known {
            if p == prop {
                if let Some(prefix) = k.strip_suffix('*') {
                    if key.starts_with(prefix) {
                        if let Some(set) = concrete_known() {
                            if !set.contains(key) {
                                continue;
                            }
                        }
                        return Some((k.clone(), d.clone()));
                    }
                }
            }
        }
        None
    }
}

pub fn load_known_findings() -> KnownFindings {
    let mut kf = KnownFindings::default();
    let path = format!("{}/known_findings.txt", verif_dir());
    if let Ok(s) = std::fs::read_to_string(path) {
        for line in s.lines() {
            let line = line.trim();
            if let Some(rest) = line.strip_prefix("known:") {
                let mut prop = None;
                let mut key = None;
                let mut desc = vec![];
                for tok in rest.split_whitespace() {
                    if let Some(p) = tok.strip_prefix("property=") {
                        if prop.is_none() {
                            prop = Some(p.to_string());
                            continue;
                        }
                    }
                    if let Some(k) = tok.strip_prefix("key=") {
                        if key.is_none() {
                            key = Some(k.to_string());
                            continue;
                        }
                    }
                    desc.push(tok);
                }
                if let (Some(p), Some(k)) = (prop, key) {
                    kf.known.insert((p, k), desc.join(" "));
                }
            } else if line.starts_with("fixed:") {
                kf.fixed.push(line.to_string());
            }
        }
    }
    kf
}

/// Write replay files, print the interface lines, write the evidence file. Returns the
/// process exit code (0 held / 1 violation).
pub fn finish(ctx: &Ctx, mut rep: Report, rule: &str, assumptions: &[&str], extra: Value) -> i32 {
    let kf = known_findings();
    let id = &ctx.property;
    rep.violations.sort_by(|a, b| (a.key.len(), &a.key).cmp(&(b.key.len(), &b.key)));
    let mut new_violations = 0u64;
    let mut known_hit: BTreeSet<String> = BTreeSet::new();
    for (_, (listed, _)) in &rep.known_hits {
        if known_hit.insert(listed.clone()) {
            let desc = kf.known.get(&(id.clone(), listed.clone())).cloned().unwrap_or_default();
            println!("KNOWN-FINDING: property={id} key={listed} {desc}");
        }
    }
    // VERIF_DUMP_KNOWN=<file>: the concrete keys behind the listed findings (maintenance aid)
    if let Ok(p) = std::env::var("VERIF_DUMP_KNOWN") {
        let body: String = rep.known_hits.iter().map(|(k, (l, n))| format!("{id}\t{l}\t{n}\t{k}\n")).collect();
        let _ = std::fs::write(p, body);
    }
    let dir = format!("{}/replays/{id}", verif_dir());
    // replay files of earlier runs are stale
    let _ = std::fs::remove_dir_all(&dir);
    let _ = std::fs::create_dir_all(&dir);
    let mut printed = 0;
    for (n, v) in rep.violations.iter().enumerate() {
        if let Some((kkey, desc)) = kf.lookup(id, &v.key) {
            if known_hit.insert(kkey.clone()) {
                println!("KNOWN-FINDING: property={id} key={kkey} {desc}");
            }
            continue;
        }
        new_violations += 1;
        let path = format!("{dir}/{n}.json");
        let body = json!({"property": id, "key": v.key, "message": v.msg, "case": v.case, "tier": ctx.tier.name(), "profile": ctx.profile});
        let _ = std::fs::write(&path, serde_json::to_string_pretty(&body).unwrap());
        if printed < 25 {
            println!("VIOLATION property={id} replay={path}");
            println!("  key={} :: {}", v.key, v.msg);
            printed += 1;
        }
    }
    let unkept = rep.violation_count.saturating_sub(rep.violations.len() as u64);
    let wall = ctx.start.elapsed().as_secs_f64();
    let samples: Vec<Value> = if rep.samples.is_empty() { vec![json!("(no sample recorded)")] } else { rep.samples.clone() };
    let mut coverage = json!({
        "states": rep.states.max(1),
        "transitions": rep.transitions.max(1),
        "traces_validated_against_impl": rep.traces_validated,
        "evaluations": rep.evaluations.max(1),
        "distinct_nontrivial": rep.nontrivial,
        "rule": rule,
        "samples": samples,
        "exhaustive": rep.exhaustive,
        "levels": rep.levels,
        "counters": rep.counters,
        "distinct_outcomes": rep.outcomes.len(),
        "outcomes": rep.outcomes,
        "violating_cases_total": rep.violation_count,
        "violating_cases_distinct_keys_kept": rep.violations.len(),
        "known_findings_matched": known_hit.len(),
        "known_findings_concrete_keys": rep.known_hits.len(),
        "known_findings_cases": rep.known_hits.values().map(|x| x.1).sum::<u64>(),
        "notes": rep.notes,
        "threads": ctx.threads,
        "subject_profile": ctx.profile,
    });
    if let (Value::Object(c), Value::Object(e)) = (&mut coverage, extra) {
        for (k, v) in e {
            c.insert(k, v);
        }
    }
    let ev = json!({
        "property_id": id,
        "tier": ctx.tier.name(),
        "seed": ctx.seed,
        "level": "model_checking",
        "coverage": coverage,
        "assumptions": assumptions,
        "wall_s": wall,
        "violations": new_violations,
    });
    let evdir = format!("{}/evidence", verif_dir());
    let _ = std::fs::create_dir_all(&evdir);
    let evpath = format!("{evdir}/{id}.json");
    if let Err(e) = std::fs::write(&evpath, serde_json::to_string_pretty(&ev).unwrap()) {
        eprintln!("ENGINE-ERROR: cannot write {evpath}: {e}");
        return 2;
    }
    println!(
        "SUMMARY property={id} tier={} profile={} evaluations={} states={} transitions={} traces={} outcomes={} exhaustive={} violations_new={} known={} (violating cases total {}, not kept {}) wall={:.1}s",
        ctx.tier.name(), ctx.profile, rep.evaluations, rep.states, rep.transitions, rep.traces_validated,
        rep.outcomes.len(), rep.exhaustive, new_violations, known_hit.len(), rep.violation_count, unkept, wall
    );
    if new_violations > 0 {
        1
    } else {
        0
    }
}
