//! Conversions between the implementation's terms (candid::types::Type, TypeEnv,
//! IDLValue) and the reference model's (refmodel::ty::Ty, Env, val::Val).
use candid::types::value::{IDLField, IDLValue, VariantValue};
use candid::types::{Field, FuncMode, Function, Label, Type, TypeEnv, TypeInner};
use candid::Principal;
use num_bigint::BigInt;
use refmodel::ty::{Env, FuncTy, Mode, Prim, Ty};
use refmodel::val::Val;

pub fn prim_to_real(p: Prim) -> TypeInner {
    match p {
        Prim::Null => TypeInner::Null,
        Prim::Bool => TypeInner::Bool,
        Prim::Nat => TypeInner::Nat,
        Prim::Int => TypeInner::Int,
        Prim::Nat8 => TypeInner::Nat8,
        Prim::Nat16 => TypeInner::Nat16,
        Prim::Nat32 => TypeInner::Nat32,
        Prim::Nat64 => TypeInner::Nat64,
        Prim::Int8 => TypeInner::Int8,
        Prim::Int16 => TypeInner::Int16,
        Prim::Int32 => TypeInner::Int32,
        Prim::Int64 => TypeInner::Int64,
        Prim::Float32 => TypeInner::Float32,
        Prim::Float64 => TypeInner::Float64,
        Prim::Text => TypeInner::Text,
        Prim::Reserved => TypeInner::Reserved,
        Prim::Empty => TypeInner::Empty,
        Prim::Principal => TypeInner::Principal,
    }
}

pub fn mode_to_real(m: Mode) -> FuncMode {
    match m {
        Mode::Query => FuncMode::Query,
        Mode::Oneway => FuncMode::Oneway,
        Mode::CompositeQuery => FuncMode::CompositeQuery,
    }
}
pub fn mode_from_real(m: &FuncMode) -> Mode {
    match m {
        FuncMode::Query => Mode::Query,
        FuncMode::Oneway => Mode::Oneway,
        FuncMode::CompositeQuery => Mode::CompositeQuery,
    }
}

/// Model type -> real type; `label` chooses the spelling of each field id.
pub fn to_real_ty_with(t: &Ty, label: &dyn Fn(u32) -> Label) -> Type {
    let fields = |fs: &Vec<(u32, Ty)>| -> Vec<Field> {
        fs.iter().map(|(id, t)| Field { id: label(*id).into(), ty: to_real_ty_with(t, label) }).collect()
    };
    match t {
        Ty::Prim(p) => prim_to_real(*p),
        Ty::Var(v) => TypeInner::Var(v.clone()),
        Ty::Opt(t) => TypeInner::Opt(to_real_ty_with(t, label)),
        Ty::Vec(t) => TypeInner::Vec(to_real_ty_with(t, label)),
        Ty::Record(fs) => TypeInner::Record(fields(fs)),
        Ty::Variant(fs) => TypeInner::Variant(fields(fs)),
        Ty::Func(f) => TypeInner::Func(Function {
            modes: f.modes.iter().map(|m| mode_to_real(*m)).collect(),
            args: f.args.iter().map(|t| to_real_ty_with(t, label)).collect(),
            rets: f.rets.iter().map(|t| to_real_ty_with(t, label)).collect(),
        }),
        Ty::Service(ms) => {
            TypeInner::Service(ms.iter().map(|(n, t)| (n.clone(), to_real_ty_with(t, label))).collect())
        }
        Ty::Class(a, t) => {
            TypeInner::Class(a.iter().map(|t| to_real_ty_with(t, label)).collect(), to_real_ty_with(t, label))
        }
        Ty::Future(..) => TypeInner::Future,
    }
    .into()
}
pub fn to_real_ty(t: &Ty) -> Type {
    to_real_ty_with(t, &|id| Label::Id(id))
}
pub fn to_real_env(e: &Env) -> TypeEnv {
    TypeEnv(e.0.iter().map(|(k, v)| (k.clone(), to_real_ty(v))).collect())
}
pub fn to_real_env_with(e: &Env, label: &dyn Fn(u32) -> Label) -> TypeEnv {
    TypeEnv(e.0.iter().map(|(k, v)| (k.clone(), to_real_ty_with(v, label))).collect())
}

pub fn prim_from_real(t: &TypeInner) -> Option<Prim> {
    Some(match t {
        TypeInner::Null => Prim::Null,
        TypeInner::Bool => Prim::Bool,
        TypeInner::Nat => Prim::Nat,
        TypeInner::Int => Prim::Int,
        TypeInner::Nat8 => Prim::Nat8,
        TypeInner::Nat16 => Prim::Nat16,
        TypeInner::Nat32 => Prim::Nat32,
        TypeInner::Nat64 => Prim::Nat64,
        TypeInner::Int8 => Prim::Int8,
        TypeInner::Int16 => Prim::Int16,
        TypeInner::Int32 => Prim::Int32,
        TypeInner::Int64 => Prim::Int64,
        TypeInner::Float32 => Prim::Float32,
        TypeInner::Float64 => Prim::Float64,
        TypeInner::Text => Prim::Text,
        TypeInner::Reserved => Prim::Reserved,
        TypeInner::Empty => Prim::Empty,
        TypeInner::Principal => Prim::Principal,
        _ => return None,
    })
}

/// Real type -> model type. `Knot(id)` nodes (recursive Rust types) are resolved through
/// the thread-local memo of *this* thread and bound in `knots` under a generated name.
/// Fields/methods are sorted (the model's invariant); duplicates are reported as errors.
pub fn from_real_ty(t: &Type, knots: &mut Env) -> Result<Ty, String> {
    let fields = |fs: &Vec<Field>, knots: &mut Env| -> Result<Vec<(u32, Ty)>, String> {
        let mut out = vec![];
        for f in fs {
            out.push((f.id.get_id(), from_real_ty(&f.ty, knots)?));
        }
        out.sort_by_key(|f| f.0);
        for w in out.windows(2) {
            if w[0].0 == w[1].0 {
                return Err(format!("duplicate field id {}", w[0].0));
            }
        }
        Ok(out)
    };
    Ok(match t.as_ref() {
        TypeInner::Var(v) => Ty::Var(v.clone()),
        TypeInner::Knot(id) => {
            let name = format!("knot:{}", id.name);
            if !knots.0.contains_key(&name) {
                let def = candid::types::internal::find_type(id)
                    .ok_or_else(|| format!("knot {} not in memo", id.name))?;
                // placeholder first: the definition refers back to the knot
                knots.0.insert(name.clone(), Ty::Prim(Prim::Empty));
                let d = from_real_ty(&def, knots)?;
                knots.0.insert(name.clone(), d);
            }
            Ty::Var(name)
        }
        TypeInner::Opt(t) => Ty::opt(from_real_ty(t, knots)?),
        TypeInner::Vec(t) => Ty::vec(from_real_ty(t, knots)?),
        TypeInner::Record(fs) => Ty::Record(fields(fs, knots)?),
        TypeInner::Variant(fs) => Ty::Variant(fields(fs, knots)?),
        TypeInner::Func(f) => Ty::Func(FuncTy {
            args: f.args.iter().map(|t| from_real_ty(t, knots)).collect::<Result<_, _>>()?,
            rets: f.rets.iter().map(|t| from_real_ty(t, knots)).collect::<Result<_, _>>()?,
            modes: f.modes.iter().map(mode_from_real).collect(),
        }),
        TypeInner::Service(ms) => {
            let mut out = vec![];
            for (n, t) in ms {
                out.push((n.clone(), from_real_ty(t, knots)?));
            }
            out.sort_by(|a, b| a.0.as_bytes().cmp(b.0.as_bytes()));
            for w in out.windows(2) {
                if w[0].0 == w[1].0 {
                    return Err(format!("duplicate method {}", w[0].0));
                }
            }
            Ty::Service(out)
        }
        TypeInner::Class(a, t) => Ty::Class(
            a.iter().map(|t| from_real_ty(t, knots)).collect::<Result<_, _>>()?,
            Box::new(from_real_ty(t, knots)?),
        ),
        TypeInner::Future => Ty::Future(-25, vec![]),
        TypeInner::Unknown => return Err("Unknown type".into()),
        p => Ty::Prim(prim_from_real(p).ok_or("unexpected type")?),
    })
}

pub fn from_real_env(e: &TypeEnv) -> Result<Env, String> {
    let mut knots = Env::new();
    let mut out = Env::new();
    for (k, v) in &e.0 {
        out.0.insert(k.clone(), from_real_ty(v, &mut knots)?);
    }
    for (k, v) in knots.0 {
        out.0.insert(k, v);
    }
    Ok(out)
}

fn principal(b: &[u8]) -> Result<Principal, String> {
    Principal::try_from_slice(b).map_err(|e| format!("{e}"))
}

/// Model value -> untyped implementation value. `blob`: represent vectors whose elements
/// are all nat8 values (and which are non-empty) as `IDLValue::Blob`.
pub fn to_idl(v: &Val, blob: bool) -> Result<IDLValue, String> {
    Ok(match v {
        Val::Null => IDLValue::Null,
        Val::Reserved => IDLValue::Reserved,
        Val::Bool(b) => IDLValue::Bool(*b),
        Val::Nat(n) => IDLValue::Nat(candid::Nat(n.clone())),
        Val::Int(i) => IDLValue::Int(candid::Int(i.clone())),
        Val::NatN(8, n) => IDLValue::Nat8(*n as u8),
        Val::NatN(16, n) => IDLValue::Nat16(*n as u16),
        Val::NatN(32, n) => IDLValue::Nat32(*n as u32),
        Val::NatN(64, n) => IDLValue::Nat64(*n),
        Val::IntN(8, n) => IDLValue::Int8(*n as i8),
        Val::IntN(16, n) => IDLValue::Int16(*n as i16),
        Val::IntN(32, n) => IDLValue::Int32(*n as i32),
        Val::IntN(64, n) => IDLValue::Int64(*n),
        Val::NatN(..) | Val::IntN(..) => return Err("bad width".into()),
        Val::F32(b) => IDLValue::Float32(f32::from_bits(*b)),
        Val::F64(b) => IDLValue::Float64(f64::from_bits(*b)),
        Val::Text(s) => IDLValue::Text(s.clone()),
        Val::Opt(None) => IDLValue::None,
        Val::Opt(Some(v)) => IDLValue::Opt(Box::new(to_idl(v, blob)?)),
        Val::Vec(vs) => {
            if blob && !vs.is_empty() && vs.iter().all(|x| matches!(x, Val::NatN(8, _))) {
                IDLValue::Blob(vs.iter().map(|x| if let Val::NatN(8, n) = x { *n as u8 } else { 0 }).collect())
            } else {
                IDLValue::Vec(vs.iter().map(|x| to_idl(x, blob)).collect::<Result<_, _>>()?)
            }
        }
        Val::Record(fs) => IDLValue::Record(
            fs.iter()
                .map(|(id, v)| Ok(IDLField { id: Label::Id(*id), val: to_idl(v, blob)? }))
                .collect::<Result<_, String>>()?,
        ),
        Val::Variant(id, v) => {
            IDLValue::Variant(VariantValue(Box::new(IDLField { id: Label::Id(*id), val: to_idl(v, blob)? }), 0))
        }
        Val::Principal(b) => IDLValue::Principal(principal(b)?),
        Val::Service(b) => IDLValue::Service(principal(b)?),
        Val::Func(b, m) => IDLValue::Func(principal(b)?, m.clone()),
    })
}

/// Untyped implementation value -> model value (labels by id; record fields sorted).
pub fn from_idl(v: &IDLValue) -> Result<Val, String> {
    Ok(match v {
        IDLValue::Null => Val::Null,
        IDLValue::Reserved => Val::Reserved,
        IDLValue::Bool(b) => Val::Bool(*b),
        IDLValue::Nat(n) => Val::Nat(n.0.clone()),
        IDLValue::Int(i) => Val::Int(i.0.clone()),
        IDLValue::Number(s) => Val::Int(s.parse::<BigInt>().map_err(|e| format!("{e}"))?),
        IDLValue::Nat8(n) => Val::NatN(8, *n as u64),
        IDLValue::Nat16(n) => Val::NatN(16, *n as u64),
        IDLValue::Nat32(n) => Val::NatN(32, *n as u64),
        IDLValue::Nat64(n) => Val::NatN(64, *n),
        IDLValue::Int8(n) => Val::IntN(8, *n as i64),
        IDLValue::Int16(n) => Val::IntN(16, *n as i64),
        IDLValue::Int32(n) => Val::IntN(32, *n as i64),
        IDLValue::Int64(n) => Val::IntN(64, *n),
        IDLValue::Float32(f) => Val::F32(f.to_bits()),
        IDLValue::Float64(f) => Val::F64(f.to_bits()),
        IDLValue::Text(s) => Val::Text(s.clone()),
        IDLValue::None => Val::Opt(None),
        IDLValue::Opt(v) => Val::some(from_idl(v)?),
        IDLValue::Vec(vs) => Val::Vec(vs.iter().map(from_idl).collect::<Result<_, _>>()?),
        IDLValue::Blob(b) => Val::blob(b),
        IDLValue::Record(fs) => {
            let mut out = vec![];
            for f in fs {
                out.push((f.id.get_id(), from_idl(&f.val)?));
            }
            out.sort_by_key(|f| f.0);
            for w in out.windows(2) {
                if w[0].0 == w[1].0 {
                    return Err(format!("duplicate field {} in record value", w[0].0));
                }
            }
            Val::Record(out)
        }
        IDLValue::Variant(v) => Val::Variant(v.0.id.get_id(), Box::new(from_idl(&v.0.val)?)),
        IDLValue::Principal(p) => Val::Principal(p.as_slice().to_vec()),
        IDLValue::Service(p) => Val::Service(p.as_slice().to_vec()),
        IDLValue::Func(p, m) => Val::Func(p.as_slice().to_vec(), m.clone()),
    })
}

pub fn from_idl_args(a: &candid::IDLArgs) -> Result<Vec<Val>, String> {
    a.args.iter().map(from_idl).collect()
}
