//! Shared finite universes (DESIGN.md section 4 "scopes") and the deviation operators
//! of Appendix B on types and bytes.
use refmodel::gen::{FuncShape, TyAlphabet};
use refmodel::ty::{Env, FuncTy, Mode, Prim, Ty, P};

pub fn p(x: Prim) -> Ty {
    Ty::Prim(x)
}

/// T1: depth <= 1 over the data leaves, with opt, vec, small records and variants.
pub fn alphabet_data(leaves: &[Prim]) -> TyAlphabet {
    TyAlphabet {
        leaves: leaves.iter().map(|x| Ty::Prim(*x)).collect(),
        opt: true,
        vec: true,
        record_labels: vec![vec![], vec![0], vec![0, 1], vec![1]],
        variant_labels: vec![vec![0], vec![0, 1], vec![1]],
        funcs: vec![],
        services: vec![],
        func_arg_pool: 0,
    }
}

pub const LEAVES_WIDE: [Prim; 9] =
    [P::Null, P::Bool, P::Nat, P::Int, P::Nat8, P::Text, P::Reserved, P::Empty, P::Principal];
pub const LEAVES_NARROW: [Prim; 5] = [P::Nat, P::Int, P::Text, P::Null, P::Reserved];

/// Reference types over a small alphabet (for func/service subtyping inside messages).
pub fn alphabet_refs() -> TyAlphabet {
    TyAlphabet {
        leaves: vec![p(P::Nat), p(P::Int), p(P::Text), Ty::opt(p(P::Nat))],
        opt: false,
        vec: false,
        record_labels: vec![],
        variant_labels: vec![],
        funcs: vec![
            FuncShape { nargs: 0, nrets: 0, modes: vec![] },
            FuncShape { nargs: 1, nrets: 0, modes: vec![] },
            FuncShape { nargs: 0, nrets: 1, modes: vec![] },
            FuncShape { nargs: 1, nrets: 1, modes: vec![] },
            FuncShape { nargs: 1, nrets: 1, modes: vec![Mode::Query] },
            FuncShape { nargs: 2, nrets: 0, modes: vec![] },
            FuncShape { nargs: 0, nrets: 0, modes: vec![Mode::Oneway] },
        ],
        services: vec![vec![], vec!["m".into()], vec!["m".into(), "n".into()]],
        func_arg_pool: 4,
    }
}

/// One-step upgrade/downgrade neighbours of a type (Appendix B, "types"), applied at the
/// root and at every sub-term position.
pub fn mutants(t: &Ty) -> Vec<Ty> {
    let mut out: Vec<Ty> = vec![];
    let mut push = |x: Ty| {
        if x != *t && !out.contains(&x) {
            out.push(x);
        }
    };
    // root replacements
    for q in [P::Reserved, P::Empty, P::Null] {
        push(p(q));
    }
    push(Ty::opt(t.clone()));
    push(Ty::vec(t.clone()));
    match t {
        Ty::Prim(x) => {
            let alts: &[Prim] = match x {
                P::Nat => &[P::Int, P::Nat8, P::Nat64, P::Text],
                P::Int => &[P::Nat, P::Int8, P::Int64, P::Text],
                P::Text => &[P::Nat, P::Principal],
                P::Nat8 => &[P::Nat, P::Int8, P::Nat16],
                P::Bool => &[P::Nat8, P::Null],
                P::Null => &[P::Bool, P::Nat],
                P::Principal => &[P::Text],
                _ => &[P::Nat],
            };
            for a in alts {
                push(p(*a));
            }
        }
        Ty::Var(_) | Ty::Future(..) | Ty::Class(..) => {}
        Ty::Opt(x) | Ty::Vec(x) => {
            push((**x).clone());
            if let Ty::Opt(_) = t {
                push(Ty::vec((**x).clone()));
            } else {
                push(Ty::opt((**x).clone()));
            }
            for m in mutants(x) {
                push(if matches!(t, Ty::Opt(_)) { Ty::opt(m) } else { Ty::vec(m) });
            }
        }
        Ty::Record(fs) | Ty::Variant(fs) => {
            let mk = |fs: Vec<(u32, Ty)>| if matches!(t, Ty::Record(_)) { Ty::record(fs) } else { Ty::variant(fs) };
            // record <-> variant with the same fields
            push(if matches!(t, Ty::Record(_)) { Ty::variant(fs.clone()) } else { Ty::record(fs.clone()) });
            for i in 0..fs.len() {
                let mut g = fs.clone();
                g.remove(i);
                push(mk(g));
                // relabel
                let mut g = fs.clone();
                let nl = g[i].0.wrapping_add(7);
                if !fs.iter().any(|f| f.0 == nl) {
                    g[i].0 = nl;
                    push(mk(g));
                }
                for m in mutants(&fs[i].1) {
                    let mut g = fs.clone();
                    g[i].1 = m;
                    push(mk(g));
                }
            }
            // add a field below, between and above existing ids
            let used: Vec<u32> = fs.iter().map(|f| f.0).collect();
            let mut fresh: Vec<u32> = vec![];
            for cand in [0u32, 1, 2, 3, 4, 1000] {
                if !used.contains(&cand) && fresh.len() < 2 {
                    fresh.push(cand);
                }
            }
            for l in fresh {
                for nt in [p(P::Nat), Ty::opt(p(P::Nat)), p(P::Null), p(P::Reserved), p(P::Text), Ty::opt(p(P::Empty))] {
                    let mut g = fs.clone();
                    g.push((l, nt));
                    push(mk(g));
                }
            }
        }
        Ty::Func(f) => {
            let mk = |args: Vec<Ty>, rets: Vec<Ty>, modes: Vec<Mode>| Ty::Func(FuncTy { args, rets, modes });
            for extra in [p(P::Nat), Ty::opt(p(P::Nat))] {
                let mut a = f.args.clone();
                a.push(extra.clone());
                push(mk(a, f.rets.clone(), f.modes.clone()));
                let mut r = f.rets.clone();
                r.push(extra);
                push(mk(f.args.clone(), r, f.modes.clone()));
            }
            if !f.args.is_empty() {
                let mut a = f.args.clone();
                a.pop();
                push(mk(a, f.rets.clone(), f.modes.clone()));
            }
            if !f.rets.is_empty() {
                let mut r = f.rets.clone();
                r.pop();
                push(mk(f.args.clone(), r, f.modes.clone()));
            }
            for m in [vec![], vec![Mode::Query], vec![Mode::Oneway], vec![Mode::CompositeQuery]] {
                push(mk(f.args.clone(), f.rets.clone(), m));
            }
            for i in 0..f.args.len() {
                for m in mutants(&f.args[i]) {
                    let mut a = f.args.clone();
                    a[i] = m;
                    push(mk(a, f.rets.clone(), f.modes.clone()));
                }
            }
            for i in 0..f.rets.len() {
                for m in mutants(&f.rets[i]) {
                    let mut r = f.rets.clone();
                    r[i] = m;
                    push(mk(f.args.clone(), r, f.modes.clone()));
                }
            }
            push(p(P::Principal));
        }
        Ty::Service(ms) => {
            for i in 0..ms.len() {
                let mut g = ms.clone();
                g.remove(i);
                push(Ty::service(g));
                if let Ty::Func(_) = &ms[i].1 {
                    for m in mutants(&ms[i].1) {
                        if matches!(m, Ty::Func(_)) {
                            let mut g = ms.clone();
                            g[i].1 = m;
                            push(Ty::service(g));
                        }
                    }
                }
            }
            for name in ["a", "zz"] {
                if !ms.iter().any(|m| m.0 == name) {
                    let mut g = ms.clone();
                    g.push((name.to_string(), Ty::func(vec![], vec![], vec![])));
                    push(Ty::service(g));
                }
            }
            push(p(P::Principal));
        }
    }
    out
}

/// Recursive environment families used on the wire side and (renamed/mutated) on the
/// expected side. Names are prefixed so that two sides never share a name.
pub fn recursive_envs(prefix: &str) -> Vec<(Env, Ty)> {
    let n = |s: &str| format!("{prefix}{s}");
    let v = |s: &str| Ty::Var(n(s));
    let mut out = vec![];
    // list of nat
    out.push((
        Env(vec![(n("L"), Ty::opt(Ty::record(vec![(0, p(P::Nat)), (1, v("L"))])))].into_iter().collect()),
        v("L"),
    ));
    // list through a record definition with the option inside
    out.push((
        Env(vec![(n("N"), Ty::record(vec![(0, p(P::Int)), (1, Ty::opt(v("N")))]))].into_iter().collect()),
        v("N"),
    ));
    // tree as a variant
    out.push((
        Env(vec![(
            n("T"),
            Ty::variant(vec![(0, p(P::Null)), (1, Ty::record(vec![(0, v("T")), (1, v("T"))]))]),
        )]
        .into_iter()
        .collect()),
        v("T"),
    ));
    // mutual recursion through a vector, with an alias of a primitive and an alias chain
    out.push((
        Env(vec![
            (n("A"), Ty::record(vec![(0, v("B")), (1, v("K"))])),
            (n("B"), Ty::vec(v("A"))),
            (n("K"), v("K2")),
            (n("K2"), p(P::Nat)),
        ]
        .into_iter()
        .collect()),
        v("A"),
    ));
    // rose tree with optional label
    out.push((
        Env(vec![(n("R"), Ty::record(vec![(0, Ty::opt(p(P::Text))), (1, Ty::vec(v("R")))]))].into_iter().collect()),
        v("R"),
    ));
    out
}

/// Aliases: every primitive (and a few composites) behind a definition and behind a chain of two
/// definitions, used at every constructor position (on its own, under opt / vec, as a record
/// field, as a variant payload, under opt variant).
pub fn alias_envs(prefix: &str) -> Vec<(Env, Ty)> {
    let n = |s: &str| format!("{prefix}{s}");
    let v = |s: &str| Ty::Var(n(s));
    let mut targets: Vec<Ty> = Prim::ALL.iter().filter(|x| **x != P::Empty).map(|x| p(*x)).collect();
    targets.push(Ty::opt(p(P::Nat)));
    targets.push(Ty::vec(p(P::Nat8)));
    targets.push(Ty::record(vec![]));
    targets.push(Ty::variant(vec![(0, p(P::Null))]));
    targets.push(Ty::opt(Ty::opt(p(P::Null))));
    let mut out = vec![];
    for tg in targets {
        let env = Env(vec![(n("X"), tg.clone()), (n("Y"), v("Z")), (n("Z"), tg.clone())].into_iter().collect());
        for a in ["X", "Y"] {
            let x = v(a);
            out.push((env.clone(), x.clone()));
            out.push((env.clone(), Ty::opt(x.clone())));
            out.push((env.clone(), Ty::vec(x.clone())));
            out.push((env.clone(), Ty::record(vec![(0, x.clone()), (1, p(P::Nat))])));
            out.push((env.clone(), Ty::variant(vec![(0, x.clone()), (1, p(P::Nat))])));
            out.push((env.clone(), Ty::opt(Ty::variant(vec![(0, p(P::Text)), (1, x.clone())]))));
        }
    }
    out
}

/// Upgrade / downgrade pairs in which the type that decides a rule's side condition ("is this field, argument or
/// result optional?", "is this the same primitive?") sits behind a definition or a chain of two: for every alias
/// environment of `alias_envs` and every shape with the alias at a record field below / between / above other
/// fields, as trailing function argument and result, and as a service method's type component: the pair
/// (one-step neighbour, shape) and its converse. Returned as (environment, s, t).
pub fn alias_neighbour_pairs(prefix: &str) -> Vec<(Env, Ty, Ty)> {
    let mut out: Vec<(Env, Ty, Ty)> = vec![];
    let mut seen = std::collections::HashSet::new();
    for (env, t0) in alias_envs(prefix) {
        // the alias itself is the first record field of the fourth shape; recover it from the opt shape
        let x = match &t0 {
            Ty::Opt(inner) if matches!(**inner, Ty::Var(_)) => (**inner).clone(),
            _ => continue,
        };
        let shapes = vec![
            Ty::record(vec![(0, x.clone()), (1, p(P::Nat))]),
            Ty::record(vec![(0, p(P::Text)), (1, x.clone()), (2, p(P::Nat))]),
            Ty::record(vec![(0, p(P::Text)), (5, x.clone())]),
            Ty::variant(vec![(0, x.clone()), (1, p(P::Nat))]),
            Ty::func(vec![p(P::Nat), x.clone()], vec![], vec![]),
            Ty::func(vec![], vec![p(P::Nat), x.clone()], vec![]),
            Ty::func(vec![x.clone()], vec![x.clone()], vec![Mode::Query]),
            Ty::service(vec![("m".to_string(), Ty::func(vec![p(P::Nat), x.clone()], vec![x.clone()], vec![]))]),
            Ty::opt(x.clone()),
            Ty::vec(x.clone()),
        ];
        for t in shapes {
            let mut ns = mutants(&t);
            ns.push(t.clone());
            for m in ns {
                for (a, b) in [(m.clone(), t.clone()), (t.clone(), m.clone())] {
                    if seen.insert((env.to_string(), a.to_string(), b.to_string())) {
                        out.push((env.clone(), a, b));
                    }
                }
            }
        }
    }
    out
}

/// All single-definition mutants of an environment (Appendix B: retarget / alter one
/// definition), keeping only closed environments.
pub fn env_mutants(e: &Env) -> Vec<Env> {
    let mut out = vec![];
    for (k, t) in &e.0 {
        for m in mutants(t) {
            let mut e2 = e.clone();
            e2.0.insert(k.clone(), m);
            if e2.closed().is_ok() && !out.contains(&e2) {
                out.push(e2);
            }
        }
    }
    out
}

/// Byte alphabet for single-byte deviations: boundary bytes, neighbours of the original
/// byte, and every type opcode.
pub fn byte_alphabet(orig: u8) -> Vec<u8> {
    let mut v = vec![0x00, 0x01, 0x02, 0x7f, 0x80, 0xff, orig.wrapping_add(1), orig.wrapping_sub(1)];
    v.extend(0x68..=0x7fu8);
    v.sort();
    v.dedup();
    v.retain(|b| *b != orig);
    v
}

/// All <= 1-deviation byte mutants: replace (alphabet), delete, insert (small alphabet),
/// truncate to every proper prefix, append.
pub fn byte_mutants(msg: &[u8], insert_alphabet: &[u8]) -> Vec<Vec<u8>> {
    let mut out = vec![];
    for i in 0..msg.len() {
        for b in byte_alphabet(msg[i]) {
            let mut m = msg.to_vec();
            m[i] = b;
            out.push(m);
        }
        let mut m = msg.to_vec();
        m.remove(i);
        out.push(m);
        out.push(msg[..i].to_vec());
    }
    for i in 0..=msg.len() {
        for b in insert_alphabet {
            let mut m = msg.to_vec();
            m.insert(i, *b);
            out.push(m);
        }
    }
    out
}

// ---------------------------------------------------------------------------------------
// record widening: the wire message of a *newer* sender, whose records carry one more field

/// where the surplus field goes relative to the existing field ids of each record
#[derive(Clone, Copy, Debug, PartialEq)]
pub enum WidenPos {
    /// id below every existing id (skipped before anything of the record is read)
    BeforeFirst,
    /// id just above the smallest existing id (skipped between two wanted fields)
    AfterFirst,
    /// id above every existing id (skipped after everything was read)
    Last,
}

pub const WIDEN_POSITIONS: [WidenPos; 3] = [WidenPos::BeforeFirst, WidenPos::AfterFirst, WidenPos::Last];

fn widen_id(ids: &[u32], pos: WidenPos) -> Option<u32> {
    let min = ids.iter().min().copied();
    let max = ids.iter().max().copied();
    let id = match pos {
        WidenPos::BeforeFirst => min?.checked_sub(1)?,
        WidenPos::AfterFirst => min?.checked_add(1)?,
        WidenPos::Last => match max {
            None => 0,
            Some(m) => m.checked_add(1)?,
        },
    };
    if ids.contains(&id) {
        None
    } else {
        Some(id)
    }
}

/// every record type (not inside function/service types) gets the surplus field
pub fn widen_ty(t: &Ty, pos: WidenPos, extra: &Ty) -> Ty {
    match t {
        Ty::Opt(x) => Ty::opt(widen_ty(x, pos, extra)),
        Ty::Vec(x) => Ty::vec(widen_ty(x, pos, extra)),
        Ty::Record(fs) => {
            let ids: Vec<u32> = fs.iter().map(|f| f.0).collect();
            let mut out: Vec<(u32, Ty)> = fs.iter().map(|(i, x)| (*i, widen_ty(x, pos, extra))).collect();
            if let Some(id) = widen_id(&ids, pos) {
                out.push((id, extra.clone()));
            }
            Ty::record(out)
        }
        Ty::Variant(fs) => Ty::variant(fs.iter().map(|(i, x)| (*i, widen_ty(x, pos, extra))).collect()),
        o => o.clone(),
    }
}

pub fn widen_env(e: &Env, pos: WidenPos, extra: &Ty) -> Env {
    let mut out = Env::new();
    for (k, t) in &e.0 {
        out.0.insert(k.clone(), widen_ty(t, pos, extra));
    }
    out
}

/// the value of the widened type: every record value gets the surplus field's value
pub fn widen_val(v: &refmodel::val::Val, pos: WidenPos, extra: &refmodel::val::Val) -> refmodel::val::Val {
    use refmodel::val::Val;
    match v {
        Val::Opt(Some(x)) => Val::some(widen_val(x, pos, extra)),
        Val::Vec(xs) => Val::Vec(xs.iter().map(|x| widen_val(x, pos, extra)).collect()),
        Val::Record(fs) => {
            let ids: Vec<u32> = fs.iter().map(|f| f.0).collect();
            let mut out: Vec<(u32, Val)> = fs.iter().map(|(i, x)| (*i, widen_val(x, pos, extra))).collect();
            if let Some(id) = widen_id(&ids, pos) {
                out.push((id, extra.clone()));
            }
            Val::record(out)
        }
        Val::Variant(i, x) => Val::Variant(*i, Box::new(widen_val(x, pos, extra))),
        o => o.clone(),
    }
}

/// (name, type, value) of the surplus fields used for widening
pub fn widen_extras() -> Vec<(&'static str, Ty, refmodel::val::Val)> {
    use refmodel::val::Val;
    vec![
        ("nat32", p(P::Nat32), Val::NatN(32, 0x01020304)),
        ("text", p(P::Text), Val::Text("surplus text value".into())),
        ("opt record { nat; nat16 }", Ty::opt(Ty::record(vec![(0, p(P::Nat)), (1, p(P::Nat16))])), Val::some(Val::record(vec![(0, Val::nat(300)), (1, Val::NatN(16, 0x8001))]))),
        ("vec text", Ty::vec(p(P::Text)), Val::Vec(vec![Val::Text("a".into()), Val::Text("".into()), Val::Text("surplus".into())])),
        ("float64", p(P::Float64), Val::F64(0x3ff8000000000000)),
        ("int", p(P::Int), Val::int(-70000)),
    ]
}

/// One larger inhabitant of `t` (texts of 60 bytes, vectors of `width` pairwise distinct elements),
/// so that the payload dominates the fixed costs. None if the type has no finite inhabitant within
/// the unfolding budget.
pub fn big_val(env: &Env, t: &Ty, ctr: &mut u64, width: usize, fuel: usize) -> Option<refmodel::val::Val> {
    use refmodel::val::Val;
    *ctr += 1;
    let c = *ctr;
    Some(match t {
        Ty::Prim(pr) => match pr {
            P::Null => Val::Null,
            P::Reserved => Val::Reserved,
            P::Empty => return None,
            P::Bool => Val::Bool(c % 2 == 1),
            P::Nat => Val::nat(1000 + c),
            P::Int => Val::int(-1000 - c as i64),
            P::Nat8 => Val::NatN(8, c % 200),
            P::Nat16 => Val::NatN(16, 300 + c),
            P::Nat32 => Val::NatN(32, 70000 + c),
            P::Nat64 => Val::NatN(64, (1 << 40) + c),
            P::Int8 => Val::IntN(8, (c % 100) as i64 - 50),
            P::Int16 => Val::IntN(16, -300 - c as i64),
            P::Int32 => Val::IntN(32, -70000 - c as i64),
            P::Int64 => Val::IntN(64, -(1 << 40) - c as i64),
            P::Float32 => Val::F32((c as f32 + 0.5).to_bits()),
            P::Float64 => Val::F64((c as f64 + 0.25).to_bits()),
            P::Text => Val::Text(format!("{c:060}")),
            P::Principal => Val::Principal(vec![(c % 251) as u8, 2, 3, 4, 5, 6, 7, 8, 9, 10]),
        },
        Ty::Var(_) => {
            if fuel == 0 {
                return None;
            }
            let u = env.unf(t).ok()?.clone();
            // below a named (possibly recursive) definition vectors stay short
            return big_val(env, &u, ctr, width.min(2), fuel - 1);
        }
        Ty::Opt(x) => match if fuel > 1 { big_val(env, x, ctr, width, fuel) } else { None } {
            Some(v) => Val::some(v),
            None => Val::none(),
        },
        Ty::Vec(x) => {
            let mut out = vec![];
            if fuel > 1 {
                for _ in 0..width {
                    // nested vectors get shorter (the total stays bounded: w * w/2 * w/4 ...)
                    match big_val(env, x, ctr, (width / 2).max(1), fuel) {
                        Some(v) => out.push(v),
                        None => break,
                    }
                }
            }
            Val::Vec(out)
        }
        Ty::Record(fs) => {
            let mut out = vec![];
            for (i, x) in fs {
                out.push((*i, big_val(env, x, ctr, width, fuel)?));
            }
            Val::Record(out)
        }
        Ty::Variant(fs) => {
            if fs.is_empty() {
                return None;
            }
            let n = fs.len();
            for k in 0..n {
                let (i, x) = &fs[(c as usize + k) % n];
                if let Some(v) = big_val(env, x, ctr, width, fuel) {
                    return Some(Val::Variant(*i, Box::new(v)));
                }
            }
            return None;
        }
        Ty::Func(_) => Val::Func(vec![1, 2, 3, 4], format!("method{c}")),
        Ty::Service(_) => Val::Service(vec![4, 3, 2, 1]),
        Ty::Class(..) | Ty::Future(..) => return None,
    })
}

/// Length boundaries of everything the wire format prefixes with a length: text, blob, vectors, method
/// names. Lengths on both sides of the one-byte / two-byte LEB128 boundary and of 8- and 16-bit wrap-around
/// (127, 128, 255, 256, 257, 300, 16383, 16384, 65535, 65536), ASCII and with a multi-byte character straddling the
/// boundary, each on its own, under opt, as a record field next to another field, as a vector element
/// and as a variant payload.
pub fn length_boundary_cases() -> Vec<(Env, Ty, refmodel::val::Val)> {
    use refmodel::val::Val;
    let lens: [usize; 10] = [127, 128, 255, 256, 257, 300, 16383, 16384, 65535, 65536];
    let mut base: Vec<(Ty, Val)> = vec![];
    for n in lens {
        // text: ASCII, and the same byte length with a 2-byte character ending exactly at / straddling the boundary
        base.push((p(P::Text), Val::Text("x".repeat(n))));
        base.push((p(P::Text), Val::Text(format!("{}\u{e9}", "y".repeat(n - 2)))));
        base.push((p(P::Text), Val::Text(format!("{}\u{e9}z", "y".repeat(n - 1)))));
        if n <= 300 {
            base.push((Ty::vec(p(P::Nat8)), Val::blob(&(0..n).map(|i| (i % 251) as u8).collect::<Vec<u8>>())));
            base.push((Ty::vec(p(P::Nat16)), Val::Vec((0..n).map(|i| Val::NatN(16, (i * 257 % 65536) as u64)).collect())));
            base.push((Ty::vec(p(P::Null)), Val::Vec(vec![Val::Null; n])));
            base.push((Ty::vec(p(P::Bool)), Val::Vec((0..n).map(|i| Val::Bool(i % 3 == 0)).collect())));
        }
        if n <= 65536 {
            let ft = Ty::Func(FuncTy { args: vec![p(P::Nat)], rets: vec![], modes: vec![] });
            base.push((ft.clone(), Val::Func(vec![0xca, 0xff, 0xee], "m".repeat(n))));
            base.push((ft, Val::Func(vec![], format!("{}\u{20ac}", "n".repeat(n - 1)))));
        }
    }
    // big numbers whose LEB128 form is long (130 and 300 bytes)
    for bits in [7usize * 129 + 1, 7 * 299 + 3] {
        let big: num_bigint::BigUint = num_bigint::BigUint::from(1u8) << bits;
        base.push((p(P::Nat), Val::Nat(big.clone())));
        base.push((p(P::Int), Val::Int(-num_bigint::BigInt::from(big))));
    }
    let empty = Env::new();
    let mut out = vec![];
    for (t, v) in base {
        let long = match &v {
            Val::Text(s) => s.len() > 300,
            Val::Func(_, m) => m.len() > 300,
            _ => false,
        };
        out.push((empty.clone(), t.clone(), v.clone()));
        if long {
            // the very long ones only on their own and under opt
            out.push((empty.clone(), Ty::opt(t.clone()), Val::some(v.clone())));
            continue;
        }
        out.push((empty.clone(), Ty::opt(t.clone()), Val::some(v.clone())));
        out.push((empty.clone(), Ty::record(vec![(1, t.clone()), (2, p(P::Nat8))]), Val::record(vec![(1, v.clone()), (2, Val::NatN(8, 9))])));
        out.push((empty.clone(), Ty::vec(t.clone()), Val::Vec(vec![v.clone(), v.clone()])));
        out.push((empty.clone(), Ty::variant(vec![(0, p(P::Null)), (5, t.clone())]), Val::Variant(5, Box::new(v.clone()))));
    }
    out
}
