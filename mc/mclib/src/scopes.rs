//! Shared finite universes (DESIGN.md section 4 "scopes") and the deviation operators
//! of Appendix B on types and bytes.
use refmodel::gen::{FuncShape, TyAlphabet};
use refmodel::ty::{Env, FuncTy, Mode, Prim, Ty, P};

pub fn p(x: Prim) -> Ty {
    Ty::Prim(x)
}

/// T1: depth <= 1 over the data leaves, with opt, vec, small records and variants.
pub fn alphabet_data(leaves: &[Prim]) -> TyAlphabet {
    TyAlphabet {
        leaves: leaves.iter().map(|x| Ty::Prim(*x)).collect(),
        opt: true,
        vec: true,
        record_labels: vec![vec![], vec![0], vec![0, 1], vec![1]],
        variant_labels: vec![vec![0], vec![0, 1], vec![1]],
        funcs: vec![],
        services: vec![],
        func_arg_pool: 0,
    }
}

pub const LEAVES_WIDE: [Prim; 9] =
    [P::Null, P::Bool, P::Nat, P::Int, P::Nat8, P::Text, P::Reserved, P::Empty, P::Principal];
pub const LEAVES_NARROW: [Prim; 5] = [P::Nat, P::Int, P::Text, P::Null, P::Reserved];

/// Reference types over a small alphabet (for func/service subtyping inside messages).
pub fn alphabet_refs() -> TyAlphabet {
    TyAlphabet {
        leaves: vec![p(P::Nat), p(P::Int), p(P::Text), Ty::opt(p(P::Nat))],
        opt: false,
        vec: false,
        record_labels: vec![],
        variant_labels: vec![],
        funcs: vec![
            FuncShape { nargs: 0, nrets: 0, modes: vec![] },
            FuncShape { nargs: 1, nrets: 0, modes: vec![] },
            FuncShape { nargs: 0, nrets: 1, modes: vec![] },
            FuncShape { nargs: 1, nrets: 1, modes: vec![] },
            FuncShape { nargs: 1, nrets: 1, modes: vec![Mode::Query] },
            FuncShape { nargs: 2, nrets: 0, modes: vec![] },
            FuncShape { nargs: 0, nrets: 0, modes: vec![Mode::Oneway] },
        ],
        services: vec![vec![], vec!["m".into()], vec!["m".into(), "n".into()]],
        func_arg_pool: 4,
    }
}

/// One-step upgrade/downgrade neighbours of a type (Appendix B, "types"), applied at the
/// root and at every sub-term position.
pub fn mutants(t: &Ty) -> Vec<Ty> {
    let mut out: Vec<Ty> = vec![];
    let mut push = |x: Ty| {
        if x != *t && !out.contains(&x) {
            out.push(x);
        }
    };
    // root replacements
    for q in [P::Reserved, P::Empty, P::Null] {
        push(p(q));
    }
    push(Ty::opt(t.clone()));
    push(Ty::vec(t.clone()));
    match t {
        Ty::Prim(x) => {
            let alts: &[Prim] = match x {
                P::Nat => &[P::Int, P::Nat8, P::Nat64, P::Text],
                P::Int => &[P::Nat, P::Int8, P::Int64, P::Text],
                P::Text => &[P::Nat, P::Principal],
                P::Nat8 => &[P::Nat, P::Int8, P::Nat16],
                P::Bool => &[P::Nat8, P::Null],
                P::Null => &[P::Bool, P::Nat],
                P::Principal => &[P::Text],
                _ => &[P::Nat],
            };
            for a in alts {
                push(p(*a));
            }
        }
        Ty::Var(_) | Ty::Future(..) | Ty::Class(..) => {}
        Ty::Opt(x) | Ty::Vec(x) => {
            push((**x).clone());
            if let Ty::Opt(_) = t {
                push(Ty::vec((**x).clone()));
            } else {
                push(Ty::opt((**x).clone()));
            }
            for m in mutants(x) {
                push(if matches!(t, Ty::Opt(_)) { Ty::opt(m) } else { Ty::vec(m) });
            }
        }
        Ty::Record(fs) | Ty::Variant(fs) => {
            let mk = |fs: Vec<(u32, Ty)>| if matches!(t, Ty::Record(_)) { Ty::record(fs) } else { Ty::variant(fs) };
            // record <-> variant with the same fields
            push(if matches!(t, Ty::Record(_)) { Ty::variant(fs.clone()) } else { Ty::record(fs.clone()) });
            for i in 0..fs.len() {
                let mut g = fs.clone();
                g.remove(i);
                push(mk(g));
                // relabel
                let mut g = fs.clone();
                let nl = g[i].0.wrapping_add(7);
                if !fs.iter().any(|f| f.0 == nl) {
                    g[i].0 = nl;
                    push(mk(g));
                }
                for m in mutants(&fs[i].1) {
                    let mut g = fs.clone();
                    g[i].1 = m;
                    push(mk(g));
                }
            }
            // add a field below, between and above existing ids
            let used: Vec<u32> = fs.iter().map(|f| f.0).collect();
            let mut fresh: Vec<u32> = vec![];
            for cand in [0u32, 1, 2, 3, 4, 1000] {
                if !used.contains(&cand) && fresh.len() < 2 {
                    fresh.push(cand);
                }
            }
            for l in fresh {
                for nt in [p(P::Nat), Ty::opt(p(P::Nat)), p(P::Null), p(P::Reserved), p(P::Text), Ty::opt(p(P::Empty))] {
                    let mut g = fs.clone();
                    g.push((l, nt));
                    push(mk(g));
                }
            }
        }
        Ty::Func(f) => {
            let mk = |args: Vec<Ty>, rets: Vec<Ty>, modes: Vec<Mode>| Ty::Func(FuncTy { args, rets, modes });
            for extra in [p(P::Nat), Ty::opt(p(P::Nat))] {
                let mut a = f.args.clone();
                a.push(extra.clone());
                push(mk(a, f.rets.clone(), f.modes.clone()));
                let mut r = f.rets.clone();
                r.push(extra);
                push(mk(f.args.clone(), r, f.modes.clone()));
            }
            if !f.args.is_empty() {
                let mut a = f.args.clone();
                a.pop();
                push(mk(a, f.rets.clone(), f.modes.clone()));
            }
            if !f.rets.is_empty() {
                let mut r = f.rets.clone();
                r.pop();
                push(mk(f.args.clone(), r, f.modes.clone()));
            }
            for m in [vec![], vec![Mode::Query], vec![Mode::Oneway], vec![Mode::CompositeQuery]] {
                push(mk(f.args.clone(), f.rets.clone(), m));
            }
            for i in 0..f.args.len() {
                for m in mutants(&f.args[i]) {
                    let mut a = f.args.clone();
                    a[i] = m;
                    push(mk(a, f.rets.clone(), f.modes.clone()));
                }
            }
            for i in 0..f.rets.len() {
                for m in mutants(&f.rets[i]) {
                    let mut r = f.rets.clone();
                    r[i] = m;
                    push(mk(f.args.clone(), r, f.modes.clone()));
                }
            }
            push(p(P::Principal));
        }
        Ty::Service(ms) => {
            for i in 0..ms.len() {
                let mut g = ms.clone();
                g.remove(i);
                push(Ty::service(g));
                if let Ty::Func(_) = &ms[i].1 {
                    for m in mutants(&ms[i].1) {
                        if matches!(m, Ty::Func(_)) {
                            let mut g = ms.clone();
                            g[i].1 = m;
                            push(Ty::service(g));
                        }
                    }
                }
            }
            for name in ["a", "zz"] {
                if !ms.iter().any(|m| m.0 == name) {
                    let mut g = ms.clone();
                    g.push((name.to_string(), Ty::func(vec![], vec![], vec![])));
                    push(Ty::service(g));
                }
            }
            push(p(P::Principal));
        }
    }
    out
}

/// Recursive environment families used on the wire side and (renamed/mutated) on the
/// expected side. Names are prefixed so that two sides never share a name.
pub fn recursive_envs(prefix: &str) -> Vec<(Env, Ty)> {
    let n = |s: &str| format!("{prefix}{s}");
    let v = |s: &str| Ty::Var(n(s));
    let mut out = vec![];
    // list of nat
    out.push((
        Env(vec![(n("L"), Ty::opt(Ty::record(vec![(0, p(P::Nat)), (1, v("L"))])))].into_iter().collect()),
        v("L"),
    ));
    // list through a record definition with the option inside
    out.push((
        Env(vec![(n("N"), Ty::record(vec![(0, p(P::Int)), (1, Ty::opt(v("N")))]))].into_iter().collect()),
        v("N"),
    ));
    // tree as a variant
    out.push((
        Env(vec![(
            n("T"),
            Ty::variant(vec![(0, p(P::Null)), (1, Ty::record(vec![(0, v("T")), (1, v("T"))]))]),
        )]
        .into_iter()
        .collect()),
        v("T"),
    ));
    // mutual recursion through a vector, with an alias of a primitive and an alias chain
    out.push((
        Env(vec![
            (n("A"), Ty::record(vec![(0, v("B")), (1, v("K"))])),
            (n("B"), Ty::vec(v("A"))),
            (n("K"), v("K2")),
            (n("K2"), p(P::Nat)),
        ]
        .into_iter()
        .collect()),
        v("A"),
    ));
    // rose tree with optional label
    out.push((
        Env(vec![(n("R"), Ty::record(vec![(0, Ty::opt(p(P::Text))), (1, Ty::vec(v("R")))]))].into_iter().collect()),
        v("R"),
    ));
    out
}

/// All single-definition mutants of an environment (Appendix B: retarget / alter one
/// definition), keeping only closed environments.
pub fn env_mutants(e: &Env) -> Vec<Env> {
    let mut out = vec![];
    for (k, t) in &e.0 {
        for m in mutants(t) {
            let mut e2 = e.clone();
            e2.0.insert(k.clone(), m);
            if e2.closed().is_ok() && !out.contains(&e2) {
                out.push(e2);
            }
        }
    }
    out
}

/// Byte alphabet for single-byte deviations: boundary bytes, neighbours of the original
/// byte, and every type opcode.
pub fn byte_alphabet(orig: u8) -> Vec<u8> {
    let mut v = vec![0x00, 0x01, 0x02, 0x7f, 0x80, 0xff, orig.wrapping_add(1), orig.wrapping_sub(1)];
    v.extend(0x68..=0x7fu8);
    v.sort();
    v.dedup();
    v.retain(|b| *b != orig);
    v
}

/// All <= 1-deviation byte mutants: replace (alphabet), delete, insert (small alphabet),
/// truncate to every proper prefix, append.
pub fn byte_mutants(msg: &[u8], insert_alphabet: &[u8]) -> Vec<Vec<u8>> {
    let mut out = vec![];
    for i in 0..msg.len() {
        for b in byte_alphabet(msg[i]) {
            let mut m = msg.to_vec();
            m[i] = b;
            out.push(m);
        }
        let mut m = msg.to_vec();
        m.remove(i);
        out.push(m);
        out.push(msg[..i].to_vec());
    }
    for i in 0..=msg.len() {
        for b in insert_alphabet {
            let mut m = msg.to_vec();
            m.insert(i, *b);
            out.push(m);
        }
    }
    out
}
