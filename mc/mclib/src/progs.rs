//! U_P: a neutral AST for Candid programs (.did), its printer, its translation to the
//! reference model, and generators of well-formed programs *by construction*.
//!
//! The printer is the trusted side: every named label and method name is printed as a
//! quoted text literal with conservative escapes, so its output does not depend on the
//! implementation's own quoting rules.
use refmodel::hash::idl_hash;
use refmodel::ty::{Env, FuncTy, Mode, Prim, Ty};

#[derive(Clone, Debug, PartialEq, Eq, Hash, PartialOrd, Ord)]
pub enum PLabel {
    Id(u32),
    Named(String),
}
impl PLabel {
    pub fn id(&self) -> u32 {
        match self {
            PLabel::Id(n) => *n,
            PLabel::Named(s) => idl_hash(s),
        }
    }
    pub fn named(s: &str) -> PLabel {
        PLabel::Named(s.to_string())
    }
}

#[derive(Clone, Debug, PartialEq, Eq, Hash, PartialOrd, Ord)]
pub struct PFunc {
    /// (optional argument name, type)
    pub args: Vec<(Option<String>, PTy)>,
    pub rets: Vec<(Option<String>, PTy)>,
    pub modes: Vec<Mode>,
}

#[derive(Clone, Debug, PartialEq, Eq, Hash, PartialOrd, Ord)]
pub enum PTy {
    Prim(Prim),
    Var(String),
    Opt(Box<PTy>),
    Vec(Box<PTy>),
    /// written `blob`
    Blob,
    Record(Vec<(PLabel, PTy)>),
    Variant(Vec<(PLabel, PTy)>),
    Func(PFunc),
    /// (method name, type) where type is Func or Var
    Service(Vec<(String, PTy)>),
}

#[derive(Clone, Debug, PartialEq, Eq, Hash, PartialOrd, Ord)]
pub enum PActor {
    /// `service : <type>` where type is Service or Var
    Service(PTy),
    /// `service : (args) -> <type>`
    Class(Vec<(Option<String>, PTy)>, PTy),
}

#[derive(Clone, Debug, PartialEq, Eq, Hash, PartialOrd, Ord, Default)]
pub struct Prog {
    /// doc comment lines (each printed as `// line`) and definition
    pub defs: Vec<(String, PTy)>,
    pub actor: Option<PActor>,
    /// optional name after `service` (`service foo : ...`)
    pub actor_name: Option<String>,
}

/// Conservative text literal: printable ASCII verbatim except `"` and `\`; everything
/// else as `\u{..}` (scalars) — forms every Candid lexer must understand.
pub fn text_lit(s: &str) -> String {
    let mut o = String::from("\"");
    for c in s.chars() {
        match c {
            '"' => o.push_str("\\\""),
            '\\' => o.push_str("\\\\"),
            ' '..='~' => o.push(c),
            c => o.push_str(&format!("\\u{{{:x}}}", c as u32)),
        }
    }
    o.push('"');
    o
}

impl PTy {
    pub fn opt(t: PTy) -> PTy {
        PTy::Opt(Box::new(t))
    }
    pub fn vec(t: PTy) -> PTy {
        PTy::Vec(Box::new(t))
    }
    pub fn var(s: &str) -> PTy {
        PTy::Var(s.to_string())
    }
    pub fn func(args: Vec<PTy>, rets: Vec<PTy>, modes: Vec<Mode>) -> PTy {
        PTy::Func(PFunc {
            args: args.into_iter().map(|t| (None, t)).collect(),
            rets: rets.into_iter().map(|t| (None, t)).collect(),
            modes,
        })
    }
    pub fn to_did(&self) -> String {
        match self {
            PTy::Prim(p) => p.name().to_string(),
            PTy::Var(v) => v.clone(),
            PTy::Opt(t) => format!("opt {}", t.to_did()),
            PTy::Vec(t) => format!("vec {}", t.to_did()),
            PTy::Blob => "blob".into(),
            PTy::Record(fs) => format!("record {{ {} }}", fields_did(fs)),
            PTy::Variant(fs) => format!("variant {{ {} }}", fields_did(fs)),
            PTy::Func(f) => format!("func {}", func_did(f)),
            PTy::Service(ms) => format!("service {{ {} }}", meths_did(ms)),
        }
    }
    pub fn to_model(&self) -> Ty {
        match self {
            PTy::Prim(p) => Ty::Prim(*p),
            PTy::Var(v) => Ty::Var(v.clone()),
            PTy::Opt(t) => Ty::opt(t.to_model()),
            PTy::Vec(t) => Ty::vec(t.to_model()),
            PTy::Blob => Ty::vec(Ty::Prim(Prim::Nat8)),
            PTy::Record(fs) => Ty::record(fs.iter().map(|(l, t)| (l.id(), t.to_model())).collect()),
            PTy::Variant(fs) => Ty::variant(fs.iter().map(|(l, t)| (l.id(), t.to_model())).collect()),
            PTy::Func(f) => Ty::Func(FuncTy {
                args: f.args.iter().map(|a| a.1.to_model()).collect(),
                rets: f.rets.iter().map(|a| a.1.to_model()).collect(),
                modes: f.modes.clone(),
            }),
            PTy::Service(ms) => Ty::service(ms.iter().map(|(n, t)| (n.clone(), t.to_model())).collect()),
        }
    }
    pub fn children(&self) -> Vec<&PTy> {
        match self {
            PTy::Prim(_) | PTy::Var(_) | PTy::Blob => vec![],
            PTy::Opt(t) | PTy::Vec(t) => vec![t],
            PTy::Record(fs) | PTy::Variant(fs) => fs.iter().map(|f| &f.1).collect(),
            PTy::Func(f) => f.args.iter().chain(f.rets.iter()).map(|a| &a.1).collect(),
            PTy::Service(ms) => ms.iter().map(|m| &m.1).collect(),
        }
    }
}

fn label_did(l: &PLabel) -> String {
    match l {
        PLabel::Id(n) => n.to_string(),
        PLabel::Named(s) => text_lit(s),
    }
}
fn fields_did(fs: &[(PLabel, PTy)]) -> String {
    fs.iter().map(|(l, t)| format!("{} : {}", label_did(l), t.to_did())).collect::<Vec<_>>().join("; ")
}
fn args_did(a: &[(Option<String>, PTy)]) -> String {
    format!(
        "({})",
        a.iter()
            .map(|(n, t)| match n {
                Some(n) => format!("{} : {}", n, t.to_did()),
                None => t.to_did(),
            })
            .collect::<Vec<_>>()
            .join(", ")
    )
}
fn func_did(f: &PFunc) -> String {
    let mut s = format!("{} -> {}", args_did(&f.args), args_did(&f.rets));
    for m in &f.modes {
        s.push(' ');
        s.push_str(m.name());
    }
    s
}
fn meths_did(ms: &[(String, PTy)]) -> String {
    ms.iter()
        .map(|(n, t)| match t {
            PTy::Func(f) => format!("{} : {}", text_lit(n), func_did(f)),
            other => format!("{} : {}", text_lit(n), other.to_did()),
        })
        .collect::<Vec<_>>()
        .join("; ")
}

impl Prog {
    pub fn to_did(&self) -> String {
        let mut s = String::new();
        for (n, t) in &self.defs {
            s.push_str(&format!("type {} = {};\n", n, t.to_did()));
        }
        if let Some(a) = &self.actor {
            let name = self.actor_name.as_ref().map(|n| format!(" {n}")).unwrap_or_default();
            match a {
                PActor::Service(t) => {
                    let body = match t {
                        PTy::Service(ms) => format!("{{ {} }}", meths_did(ms)),
                        other => other.to_did(),
                    };
                    s.push_str(&format!("service{name} : {body}\n"));
                }
                PActor::Class(args, t) => {
                    let body = match t {
                        PTy::Service(ms) => format!("{{ {} }}", meths_did(ms)),
                        other => other.to_did(),
                    };
                    s.push_str(&format!("service{name} : {} -> {body}\n", args_did(args)));
                }
            }
        }
        s
    }
    /// The denotation: environment and actor type in the reference model.
    pub fn to_model(&self) -> (Env, Option<Ty>) {
        let env = Env(self.defs.iter().map(|(n, t)| (n.clone(), t.to_model())).collect());
        let actor = self.actor.as_ref().map(|a| match a {
            PActor::Service(t) => t.to_model(),
            PActor::Class(args, t) => {
                Ty::Class(args.iter().map(|a| a.1.to_model()).collect(), Box::new(t.to_model()))
            }
        });
        (env, actor)
    }
    pub fn size(&self) -> usize {
        fn sz(t: &PTy) -> usize {
            1 + t.children().iter().map(|c| sz(c)).sum::<usize>()
        }
        self.defs.iter().map(|d| sz(&d.1)).sum::<usize>() + if self.actor.is_some() { 1 } else { 0 }
    }
}

// ---------------------------------------------------------------------------------------
// label / name alphabets

/// Candid's own keywords (cannot be used as bare identifiers).
pub const CANDID_KEYWORDS: &[&str] = &[
    "type", "service", "func", "record", "variant", "opt", "vec", "blob", "principal", "import", "query",
    "oneway", "composite_query", "null", "bool", "nat", "nat8", "nat16", "nat32", "nat64", "int", "int8",
    "int16", "int32", "int64", "float32", "float64", "text", "reserved", "empty",
];

/// Field / tag / method names that stress quoting in printers and generators.
pub fn hostile_names() -> Vec<String> {
    let mut v: Vec<String> = CANDID_KEYWORDS.iter().map(|s| s.to_string()).collect();
    for s in [
        "true", "false", "_", "a", "a_b", "aB", "A", "a b", "a-b", "1a", "42", "", "\"", "\\", "'", "`", "é", "😀",
        "a\nb", "a\tb", "\u{0}", "\u{7f}", "*/", "/*", "//", "${x}", "}}", "{{", "</script>", "#", "\r",
        // target language keywords
        "class", "return", "function", "var", "let", "const", "new", "this", "self", "Self", "super", "crate", "fn",
        "struct", "enum", "match", "async", "await", "dyn", "actor", "shared", "object", "module", "public",
        "private", "switch", "case", "default", "export", "import", "delete", "typeof", "instanceof", "in",
        "of", "with", "yield", "static", "interface", "package", "protected", "implements", "arguments", "eval",
        "constructor", "prototype", "__proto__", "toString", "hasOwnProperty", "Ok", "Err", "Some", "None", "Box",
        "Vec", "Option", "Result", "String", "_0_", "_1", "id", "IDL", "Principal", "Nat", "Int", "Blob", "Bool",
        "Text", "Null", "Any", "None_", "std", "candid", "serde", "ic_cdk", "Deserialize", "CandidType",
    ] {
        if !v.contains(&s.to_string()) {
            v.push(s.to_string());
        }
    }
    v
}

/// Every string of one or two characters over the characters that matter to the escaping rules
/// of the printers and generators (backslash, both quotes, NUL, newline, DEL, a non-ASCII scalar,
/// and the letters / digits / braces that follow a backslash in an escape sequence): a printer
/// that post-processes escaped text can confuse a literal backslash followed by such a character
/// with an escape sequence.
pub fn escape_pair_names() -> Vec<String> {
    let alpha = ['\\', '"', '\'', '0', 'u', 'x', 'n', 't', '{', '}', '\u{0}', '\n', '\u{7f}', 'é', ' ', '$', '`'];
    let mut v: Vec<String> = alpha.iter().map(|c| c.to_string()).collect();
    for a in alpha {
        for b in alpha {
            v.push(format!("{a}{b}"));
        }
    }
    // longer witnesses of the same classes
    // one character of every class a printer may treat on its own (printed raw, as `\u{..}`, or as two bytes by a
    // reader): C0 and C1 controls, DEL, no-break space, soft hyphen, the last Latin-1 letter, a combining mark, zero
    // width and bidi controls, line / paragraph separator, an unassigned code point, the scalars around the surrogate
    // block, private use, BOM, non-characters, a 4-byte character and the last scalar; alone and followed by a digit
    for c in [
        '\u{1}', '\u{1f}', '\u{80}', '\u{85}', '\u{9f}', '\u{a0}', '\u{ad}', '\u{ff}', '\u{100}', '\u{301}', '\u{378}', '\u{200b}', '\u{200e}', '\u{2028}',
        '\u{2029}', '\u{d7ff}', '\u{e000}', '\u{feff}', '\u{fffe}', '\u{ffff}', '\u{1f600}', '\u{e0001}', '\u{10ffff}',
    ] {
        v.push(c.to_string());
        v.push(format!("{c}0"));
        v.push(format!("a{c}"));
    }
    for s in ["a\\0b", "path\\01", "C:\\dir\\", "get\\", "\\u{0}", "\\x00", "\\\\", "a\\\"b", "\\'", "x\u{0}0", "\u{0}\u{0}"] {
        v.push(s.to_string());
    }
    v.sort();
    v.dedup();
    v
}

/// One program per escape-relevant name: the name as record field label, variant tag and method name.
pub fn escape_programs() -> Vec<Prog> {
    escape_pair_names()
        .into_iter()
        .map(|n| Prog {
            defs: vec![(
                "t".to_string(),
                PTy::Record(vec![
                    (PLabel::Named(n.clone()), p(Prim::Nat)),
                    (PLabel::Id(7), PTy::Variant(vec![(PLabel::Named(n.clone()), p(Prim::Null)), (PLabel::Id(1), p(Prim::Text))])),
                ]),
            )],
            actor: Some(PActor::Service(PTy::Service(vec![(n.clone(), PTy::func(vec![PTy::var("t")], vec![], vec![]))]))),
            actor_name: None,
        })
        .collect()
}

/// Numeric field ids of every decimal length, at the digit-group boundaries of the printers.
pub const DIGIT_IDS: [u32; 20] = [
    5, 42, 123, 999, 1000, 1234, 12345, 99999, 100000, 123456, 999999, 1000000, 1234567, 12345678, 99999999, 100000000, 123456789, 999999999, 1000000000,
    4294967295,
];

/// One program per numeric id: the id as record field, as variant tag, next to a named field.
pub fn id_programs() -> Vec<Prog> {
    DIGIT_IDS
        .iter()
        .map(|n| Prog {
            defs: vec![(
                "t".to_string(),
                PTy::Record(vec![
                    (PLabel::Id(*n), p(Prim::Nat)),
                    (PLabel::named("name"), PTy::Variant(vec![(PLabel::Id(*n), p(Prim::Null)), (PLabel::named("ok"), p(Prim::Text))])),
                ]),
            )],
            actor: Some(PActor::Service(PTy::Service(vec![("m".to_string(), PTy::func(vec![PTy::var("t")], vec![PTy::Record(vec![(PLabel::Id(*n), p(Prim::Bool))])], vec![]))]))),
            actor_name: None,
        })
        .collect()
}

/// Service *definitions* whose methods are typed through alias chains to a function definition, under
/// every assignment of alphabetically ordered names to the roles (a printer may list definitions in
/// another order than the source, and the checker resolves method types while definitions are pending).
pub fn alias_method_programs() -> Vec<Prog> {
    let names = ["Aa", "Bb", "Cc", "Dd"];
    let mut out = vec![];
    // all assignments of 4 names to (function, alias1, alias2, service)
    for f in 0..4 {
        for a1 in 0..4 {
            for a2 in 0..4 {
                for sv in 0..4 {
                    let mut used = [f, a1, a2, sv];
                    used.sort();
                    if used != [0, 1, 2, 3] {
                        continue;
                    }
                    let (nf, na1, na2, ns) = (names[f], names[a1], names[a2], names[sv]);
                    let func = PTy::func(vec![p(Prim::Text)], vec![], vec![Mode::Oneway]);
                    let service = PTy::Service(vec![("direct".into(), PTy::var(nf)), ("one".into(), PTy::var(na1)), ("two".into(), PTy::var(na2))]);
                    // source order: dependency order, and its reverse
                    for rev in [false, true] {
                        let mut defs = vec![(nf.to_string(), func.clone()), (na1.to_string(), PTy::var(nf)), (na2.to_string(), PTy::var(na1)), (ns.to_string(), service.clone())];
                        if rev {
                            defs.reverse();
                        }
                        out.push(Prog {
                            defs,
                            actor: Some(PActor::Service(PTy::Service(vec![("hub".into(), PTy::func(vec![], vec![PTy::var(ns)], vec![Mode::Query]))]))),
                            actor_name: None,
                        });
                    }
                }
            }
        }
    }
    out
}

/// Shapes that printers and generators treat specially or reach along a path of their own:
/// (1) a named type (plain record, recursive list, mutual recursion, recursive function, alias) reached only through
///     each kind of wrapper - directly, under opt / vec, as record field, variant payload, function argument or
///     result, service method, and combinations - from the init arguments only, from a method only, or both;
/// (2) service constructors with an empty init-argument list (inline service, named service, recursive service);
/// (3) records and variants whose ids are exactly 0..n-1 (the tuple shorthand applies to records only), with null
///     and non-null payloads, as definitions, nested, and as arguments.
pub fn shape_programs() -> Vec<Prog> {
    let nat = || p(Prim::Nat);
    let text = || p(Prim::Text);
    let null = || p(Prim::Null);
    let nl = |s: &str| PLabel::named(s);
    let f = |a: Vec<PTy>, r: Vec<PTy>, m: Vec<Mode>| PTy::func(a, r, m);
    let svc = |ms: Vec<(&str, PTy)>| PTy::Service(ms.into_iter().map(|(n, t)| (n.to_string(), t)).collect());
    let class = |args: Vec<PTy>, t: PTy| Some(PActor::Class(args.into_iter().map(|a| (None, a)).collect(), t));
    let mk = |defs: &Vec<(&str, PTy)>, actor: Option<PActor>| Prog { defs: defs.iter().map(|(n, t)| (n.to_string(), t.clone())).collect(), actor, actor_name: None };
    let m0 = || svc(vec![("m", f(vec![], vec![], vec![]))]);
    let mut out = vec![];
    // (1)
    let ev = PTy::Record(vec![(nl("id"), nat()), (nl("note"), text())]);
    let list = |n: &str| PTy::opt(PTy::Record(vec![(PLabel::Id(0), nat()), (PLabel::Id(1), PTy::var(n))]));
    let wrappers: Vec<Box<dyn Fn(PTy) -> PTy>> = vec![
        Box::new(|t| t),
        Box::new(PTy::opt),
        Box::new(PTy::vec),
        Box::new(|t| PTy::Record(vec![(PLabel::named("sink"), t)])),
        Box::new(|t| PTy::Variant(vec![(PLabel::named("some"), t), (PLabel::named("none"), p(Prim::Null))])),
        Box::new(|t| PTy::func(vec![t], vec![], vec![Mode::Oneway])),
        Box::new(|t| PTy::func(vec![], vec![t], vec![Mode::Query])),
        Box::new(|t| PTy::Service(vec![("notify".to_string(), PTy::func(vec![t], vec![], vec![]))])),
        Box::new(|t| PTy::opt(PTy::func(vec![], vec![t], vec![Mode::Query]))),
        Box::new(|t| PTy::Record(vec![(PLabel::named("sink"), PTy::Service(vec![("notify".to_string(), PTy::func(vec![t.clone()], vec![t], vec![]))]))])),
    ];
    let named: Vec<(Vec<(&str, PTy)>, &str)> = vec![
        (vec![("Event", ev.clone())], "Event"),
        (vec![("Node", list("Node"))], "Node"),
        (vec![("A", PTy::Record(vec![(nl("b"), PTy::opt(PTy::var("B")))])), ("B", PTy::Record(vec![(nl("a"), PTy::opt(PTy::var("A")))]))], "A"),
        (vec![("F", f(vec![PTy::var("F")], vec![], vec![]))], "F"),
        (vec![("Alias", PTy::var("Event")), ("Event", ev.clone())], "Alias"),
    ];
    for w in &wrappers {
        for (defs, n) in &named {
            let arg = w(PTy::var(n));
            out.push(mk(defs, class(vec![arg.clone()], m0())));
            out.push(mk(defs, class(vec![arg.clone(), nat()], m0())));
            out.push(mk(defs, class(vec![nat(), arg.clone()], svc(vec![("m", f(vec![nat()], vec![], vec![]))]))));
            out.push(mk(defs, class(vec![nat()], svc(vec![("m", f(vec![arg.clone()], vec![arg.clone()], vec![]))]))));
            out.push(mk(defs, Some(PActor::Service(svc(vec![("m", f(vec![arg.clone()], vec![], vec![]))])))));
            out.push(mk(defs, None));
        }
    }
    // (2)
    let sdef = svc(vec![("get", f(vec![], vec![nat()], vec![Mode::Query]))]);
    let rsvc = svc(vec![("next", f(vec![], vec![PTy::var("S")], vec![]))]);
    out.push(mk(&vec![], class(vec![], svc(vec![]))));
    out.push(mk(&vec![], class(vec![], m0())));
    out.push(mk(&vec![("S", sdef.clone())], class(vec![], PTy::var("S"))));
    out.push(mk(&vec![("S", rsvc.clone())], class(vec![], PTy::var("S"))));
    out.push(mk(&vec![("S", sdef.clone()), ("T", PTy::var("S"))], class(vec![], PTy::var("T"))));
    out.push(mk(&vec![("t", nat())], class(vec![], svc(vec![("m", f(vec![PTy::var("t")], vec![], vec![]))]))));
    out.push(mk(&vec![("S", sdef.clone())], class(vec![null()], PTy::var("S"))));
    out.push(mk(&vec![("S", sdef.clone())], class(vec![PTy::Record(vec![])], PTy::var("S"))));
    // (3)
    for n in 1..=3usize {
        for payload in [null(), nat(), PTy::opt(text())] {
            let fs: Vec<(PLabel, PTy)> = (0..n).map(|i| (PLabel::Id(i as u32), payload.clone())).collect();
            let mixed: Vec<(PLabel, PTy)> = (0..n).map(|i| (PLabel::Id(i as u32), if i % 2 == 0 { payload.clone() } else { text() })).collect();
            for (r, v) in [(PTy::Record(fs.clone()), PTy::Variant(fs.clone())), (PTy::Record(mixed.clone()), PTy::Variant(mixed.clone()))] {
                out.push(mk(&vec![("r", r.clone()), ("v", v.clone())], Some(PActor::Service(svc(vec![("m", f(vec![PTy::var("r")], vec![PTy::var("v")], vec![]))])))));
                out.push(mk(&vec![], Some(PActor::Service(svc(vec![("m", f(vec![v.clone(), PTy::opt(v.clone())], vec![r.clone(), PTy::vec(r.clone())], vec![]))])))));
                out.push(mk(&vec![("n", PTy::Record(vec![(nl("inner"), v.clone()), (PLabel::Id(7), PTy::vec(v.clone()))]))], class(vec![v.clone()], m0())));
                out.push(mk(&vec![("w", PTy::Variant(vec![(nl("a"), v.clone()), (nl("b"), r.clone())]))], None));
            }
        }
    }
    // ids 0..n-1 with one id moved (not a tuple), and ids starting at 1
    for ids in [vec![1u32], vec![0, 2], vec![1, 2], vec![0, 1, 3]] {
        let fs: Vec<(PLabel, PTy)> = ids.iter().map(|i| (PLabel::Id(*i), nat())).collect();
        out.push(mk(&vec![("r", PTy::Record(fs.clone())), ("v", PTy::Variant(fs.clone()))], Some(PActor::Service(svc(vec![("m", f(vec![PTy::var("r")], vec![PTy::var("v")], vec![]))])))));
    }
    out
}

/// Definition names: valid Candid identifiers that are not Candid keywords, including
/// target-language keywords and names that collide after case conversion.
pub fn def_names() -> Vec<String> {
    [
        "A", "a", "b", "List", "list", "a_b", "aB", "AB", "a_b_c", "ab_c", "a_bc", "t", "T_", "_", "_a", "a1",
        "class", "return", "function", "var", "let", "const", "new", "this", "self", "Self", "super", "crate", "fn",
        "struct", "enum", "match", "async", "await", "dyn", "actor", "shared", "object", "module", "public",
        "switch", "case", "default", "export", "delete", "typeof", "in", "of", "yield", "static", "interface",
        "constructor", "prototype", "toString", "Ok", "Err", "Some", "None", "Box", "Vec", "Option", "Result",
        "String", "id", "IDL", "Principal", "Nat", "Int", "Blob", "Bool", "Text", "Null", "Any", "true_", "table0",
        "idlFactory", "init", "std", "candid", "Deserialize", "CandidType", "Service", "service_", "u8", "i32",
        "bool_", "str", "char", "usize", "f64", "_1", "__2b", "_7_days", "x86_64", "a_", "a__",
    ]
    .iter()
    .map(|s| s.to_string())
    .collect()
}

// ---------------------------------------------------------------------------------------
// generators (well-formed by construction)

fn p(x: Prim) -> PTy {
    PTy::Prim(x)
}

/// Data-type shapes over a pool of leaf types, one or two constructors deep, with the
/// given labels in every label position.
pub fn data_shapes(leaves: &[PTy], labels: &[PLabel]) -> Vec<PTy> {
    let mut out: Vec<PTy> = leaves.to_vec();
    for t in leaves {
        out.push(PTy::opt(t.clone()));
        out.push(PTy::vec(t.clone()));
    }
    out.push(PTy::Blob);
    out.push(PTy::Record(vec![]));
    out.push(PTy::Variant(vec![]));
    for l in labels {
        for t in leaves.iter().take(3) {
            out.push(PTy::Record(vec![(l.clone(), t.clone())]));
            out.push(PTy::Variant(vec![(l.clone(), t.clone())]));
        }
        out.push(PTy::Variant(vec![(l.clone(), p(Prim::Null))]));
    }
    // two-field records / variants over label pairs with distinct ids
    for (i, l1) in labels.iter().enumerate() {
        for l2 in labels.iter().skip(i + 1).take(2) {
            if l1.id() != l2.id() {
                out.push(PTy::Record(vec![(l1.clone(), leaves[0].clone()), (l2.clone(), PTy::opt(leaves[leaves.len() - 1].clone()))]));
                out.push(PTy::Variant(vec![(l1.clone(), p(Prim::Null)), (l2.clone(), leaves[0].clone())]));
            }
        }
    }
    // tuples
    out.push(PTy::Record(vec![(PLabel::Id(0), leaves[0].clone()), (PLabel::Id(1), leaves[leaves.len() - 1].clone())]));
    out.push(PTy::Record(vec![(PLabel::Id(1), leaves[0].clone()), (PLabel::Id(2), leaves[0].clone())]));
    // nested anonymous composites
    out.push(PTy::Record(vec![(
        PLabel::named("a"),
        PTy::Record(vec![(PLabel::named("b"), PTy::Variant(vec![(PLabel::named("c"), leaves[0].clone())]))]),
    )]));
    out.push(PTy::vec(PTy::Record(vec![(PLabel::Id(0), p(Prim::Text)), (PLabel::Id(1), PTy::opt(PTy::vec(leaves[0].clone())))])));
    out.dedup();
    out
}

pub fn func_shapes(pool: &[PTy]) -> Vec<PTy> {
    let a = pool[0].clone();
    let b = pool[pool.len() - 1].clone();
    vec![
        PTy::func(vec![], vec![], vec![]),
        PTy::func(vec![a.clone()], vec![], vec![Mode::Oneway]),
        PTy::func(vec![a.clone()], vec![b.clone()], vec![Mode::Query]),
        PTy::func(vec![a.clone(), b.clone()], vec![b.clone(), a.clone()], vec![]),
        PTy::func(vec![], vec![a.clone()], vec![Mode::CompositeQuery]),
        PTy::Func(PFunc {
            args: vec![(Some("x".into()), a.clone()), (Some("y".into()), b.clone())],
            rets: vec![(Some("r".into()), a.clone())],
            modes: vec![],
        }),
    ]
}

/// The program families of U_P. `labels`: label alphabet to place at every label position;
/// `names`: definition-name alphabet; `meths`: method-name alphabet.
pub fn programs(labels: &[PLabel], names: &[String], meths: &[String], max: usize) -> Vec<Prog> {
    let mut out: Vec<Prog> = vec![];
    let prims = [p(Prim::Nat), p(Prim::Text), p(Prim::Int8), p(Prim::Float64), p(Prim::Principal), p(Prim::Bool), p(Prim::Null), p(Prim::Reserved), p(Prim::Empty), p(Prim::Nat64)];
    let push = |out: &mut Vec<Prog>, pr: Prog| {
        if out.len() < max {
            out.push(pr);
        }
    };
    let mk_service = |funcs: &[PTy], meths: &[String]| -> PTy {
        let mut ms: Vec<(String, PTy)> = vec![];
        for (i, m) in meths.iter().enumerate() {
            if !ms.iter().any(|x| x.0 == *m) {
                ms.push((m.clone(), funcs[i % funcs.len()].clone()));
            }
        }
        PTy::Service(ms)
    };
    // F1: one definition per data shape, used by a one-method service; every def name
    let shapes = data_shapes(&prims[..5], labels);
    for (i, sh) in shapes.iter().enumerate() {
        let n = names[i % names.len()].clone();
        let f = PTy::func(vec![PTy::var(&n)], vec![PTy::opt(PTy::var(&n))], vec![]);
        let m = meths[i % meths.len()].clone();
        push(&mut out, Prog { defs: vec![(n.clone(), sh.clone())], actor: Some(PActor::Service(PTy::Service(vec![(m, f)]))), actor_name: None });
    }
    // F2: every definition name x a few shapes, no actor and with actor
    for (i, n) in names.iter().enumerate() {
        let sh = shapes[(i * 7) % shapes.len()].clone();
        push(&mut out, Prog { defs: vec![(n.clone(), sh.clone())], actor: None, actor_name: None });
        let n2 = names[(i + 1) % names.len()].clone();
        if n2 != *n {
            // second definition refers to the first
            let d2 = PTy::Record(vec![(labels[i % labels.len()].clone(), PTy::var(n)), (PLabel::Id(7), PTy::vec(PTy::var(n)))]);
            let f = PTy::func(vec![PTy::var(&n2)], vec![PTy::var(n)], vec![Mode::Query]);
            push(&mut out, Prog {
                defs: vec![(n.clone(), sh), (n2.clone(), d2)],
                actor: Some(PActor::Service(PTy::Service(vec![(meths[i % meths.len()].clone(), f)]))),
                actor_name: None,
            });
        }
    }
    // F3: recursive and mutually recursive definitions
    for (i, n) in names.iter().enumerate() {
        let n2 = names[(i + 3) % names.len()].clone();
        if n2 == *n {
            continue;
        }
        let l = labels[i % labels.len()].clone();
        let l2 = labels[(i + 1) % labels.len()].clone();
        if l.id() == l2.id() {
            continue;
        }
        // list
        let list = PTy::opt(PTy::Record(vec![(l.clone(), p(Prim::Int)), (l2.clone(), PTy::var(n))]));
        push(&mut out, Prog {
            defs: vec![(n.clone(), list)],
            actor: Some(PActor::Service(PTy::Service(vec![(meths[i % meths.len()].clone(), PTy::func(vec![PTy::var(n)], vec![PTy::var(n)], vec![]))]))),
            actor_name: None,
        });
        // mutual: n = record { l : opt n2 }, n2 = variant { l : n; l2 }
        let a = PTy::Record(vec![(l.clone(), PTy::opt(PTy::var(&n2)))]);
        let b = PTy::Variant(vec![(l.clone(), PTy::var(n)), (l2.clone(), p(Prim::Null))]);
        push(&mut out, Prog {
            defs: vec![(n.clone(), a), (n2.clone(), b)],
            actor: Some(PActor::Service(PTy::Service(vec![(meths[(i + 1) % meths.len()].clone(), PTy::func(vec![PTy::var(n)], vec![PTy::var(&n2)], vec![Mode::Query]))]))),
            actor_name: None,
        });
        // recursion through vec, through a func reference and through a service reference
        let tree = PTy::Record(vec![(l.clone(), PTy::vec(PTy::var(n)))]);
        push(&mut out, Prog { defs: vec![(n.clone(), tree)], actor: Some(PActor::Service(PTy::Service(vec![("get".into(), PTy::func(vec![], vec![PTy::var(n)], vec![]))]))), actor_name: None });
        let fr = PTy::func(vec![PTy::var(n)], vec![PTy::opt(PTy::var(n))], vec![]);
        push(&mut out, Prog { defs: vec![(n.clone(), fr)], actor: Some(PActor::Service(PTy::Service(vec![("f".into(), PTy::var(n))]))), actor_name: None });
        let sr = PTy::Service(vec![("next".into(), PTy::func(vec![], vec![PTy::var(n)], vec![]))]);
        push(&mut out, Prog { defs: vec![(n.clone(), sr)], actor: Some(PActor::Service(PTy::var(n))), actor_name: None });
    }
    // F4: services: every method name, methods typed by named funcs, alias chains, named
    //     service actors, classes, recursive types reachable only from init args
    let fpool = func_shapes(&[p(Prim::Nat), PTy::opt(p(Prim::Text))]);
    for (i, chunk) in meths.chunks(3).enumerate() {
        let serv = mk_service(&fpool, chunk);
        push(&mut out, Prog { defs: vec![], actor: Some(PActor::Service(serv.clone())), actor_name: None });
        let n = names[i % names.len()].clone();
        let n2 = names[(i + 5) % names.len()].clone();
        if n == n2 {
            continue;
        }
        // named service type as actor, with a name after `service`
        push(&mut out, Prog { defs: vec![(n.clone(), serv.clone())], actor: Some(PActor::Service(PTy::var(&n))), actor_name: Some("svc".into()) });
        // method typed by a named func through an alias chain
        let ms = vec![(chunk[0].clone(), PTy::var(&n2))];
        push(&mut out, Prog {
            defs: vec![(n.clone(), fpool[i % fpool.len()].clone()), (n2.clone(), PTy::var(&n))],
            actor: Some(PActor::Service(PTy::Service(ms))),
            actor_name: None,
        });
        // class with init args; the recursive type is reachable only from the init args
        let rec = PTy::opt(PTy::Record(vec![(PLabel::Id(0), p(Prim::Nat)), (PLabel::Id(1), PTy::var(&n))]));
        push(&mut out, Prog {
            defs: vec![(n.clone(), rec)],
            actor: Some(PActor::Class(vec![(None, PTy::var(&n)), (Some("cfg".into()), PTy::opt(p(Prim::Text)))], serv.clone())),
            actor_name: None,
        });
        // class returning a named service
        push(&mut out, Prog {
            defs: vec![(n.clone(), serv.clone())],
            actor: Some(PActor::Class(vec![(None, p(Prim::Principal))], PTy::var(&n))),
            actor_name: None,
        });
    }
    // F5: no definitions, no actor; definitions only; unused definitions next to an actor
    push(&mut out, Prog::default());
    push(&mut out, Prog {
        defs: vec![("unused".into(), PTy::vec(p(Prim::Nat8))), ("used".into(), p(Prim::Nat))],
        actor: Some(PActor::Service(PTy::Service(vec![("m".into(), PTy::func(vec![PTy::var("used")], vec![], vec![]))]))),
        actor_name: None,
    });
    // F6: every primitive as an alias and in argument position
    for (i, pr) in prims.iter().enumerate() {
        let n = names[(i * 3) % names.len()].clone();
        push(&mut out, Prog {
            defs: vec![(n.clone(), pr.clone())],
            actor: Some(PActor::Service(PTy::Service(vec![("m".into(), PTy::func(vec![PTy::var(&n), pr.clone()], vec![PTy::vec(PTy::var(&n))], vec![]))]))),
            actor_name: None,
        });
    }
    out
}

/// Default U_P: labels/method names from the hostile list (each as a named label) plus
/// numeric ids; all definition names.
pub fn default_programs(max: usize) -> Vec<Prog> {
    let mut labels: Vec<PLabel> = vec![PLabel::Id(0), PLabel::Id(1), PLabel::Id(4294967295)];
    labels.extend(hostile_names().into_iter().map(PLabel::Named));
    let meths = hostile_names();
    programs(&labels, &def_names(), &meths, max)
}

/// A smaller, identifier-only family (for generators that require identifier method
/// names, e.g. Motoko).
pub fn plain_programs(max: usize) -> Vec<Prog> {
    let labels: Vec<PLabel> =
        vec![PLabel::Id(0), PLabel::Id(1), PLabel::named("a"), PLabel::named("b"), PLabel::named("a_b"), PLabel::named("aB"), PLabel::Id(4294967295)];
    let meths: Vec<String> = ["m", "get", "set", "a_b", "aB", "f1"].iter().map(|s| s.to_string()).collect();
    programs(&labels, &def_names(), &meths, max)
}
