//! C20 — randomly generated arguments always inhabit the requested types.
//!
//! E1 over (type environment, argument type list) x (generator configuration, scope) x
//! (ALL entropy strings up to a length over a byte alphabet). The generator's only source of
//! nondeterminism is the entropy slice, so the sweep is exhaustive inside the scope.
//!
//! Oracle per run: `candid_parser::random::any` returns `Err`, or `Ok(args)` with
//!  (a) `annotate_types(false|true)` succeeds and maps the values to themselves,
//!  (b) `to_bytes_with_types` succeeds and the reference decoder (R2) reads back the same
//!      values, which the typing judgement (R1) accepts at the requested types,
//!  (c) no unwinding, no abort (stack overflow / allocation failure), termination within 5 s,
//!  (d) under a depth/size-limited configuration the number of nested choice nodes
//!      (`opt` that is present, variant) is at most limit + 1 + the type's own acyclic
//!      choice depth (soft bound; vectors are governed by `width`, not by depth),
//!  (e) the same (seed, config, types) twice gives the same result.
//!
//! Process layout: the parent only schedules. Every run happens in a child process
//! (`--worker`), on a thread with an 8 MiB stack, watched by a watchdog (5 s per call into the subject). A dead or hung
//! child is a verdict about the single input it was running (located by re-running the unit
//! in "step" mode where the child announces every input before it runs it).
use candid::types::{Type, TypeEnv};
use candid_parser::configs::{Configs, Scope, ScopePos};
use mclib::bridge;
use mclib::engine::{catch, finish, install_quiet_panic_hook, Ctx, Tier};
use mclib::scopes::recursive_envs;
use refmodel::gen::{self, FuncShape, TyAlphabet};
use refmodel::ty::{Env, Mode, Ty, P};
use refmodel::val::{has_type, Val};
use refmodel::wire::{self, Limits};
use serde::{Deserialize, Serialize};
use serde_json::{json, Value};
use std::collections::{BTreeMap, BTreeSet};
use std::io::{BufRead, BufReader, Read, Write};
use std::sync::atomic::{AtomicU64, Ordering};
use std::sync::{Arc, Mutex};
use std::time::Instant;

const SEED_ALPHABET: [u8; 5] = [0x00, 0x01, 0x7f, 0x80, 0xff];
/// stack of the generator thread (didc runs the generator on an 8 MiB main thread). The
/// implementation's recursion guard trips 32 KiB before the end of whatever stack it runs
/// on, so the time of a runaway recursion is proportional to this number (~60 ms per MiB).
const STACK_BYTES: usize = 8 << 20;
const HANG_MS: u64 = 5000;
/// Seed prefixes of family E. `text`/`func` first draw a u64 (8 bytes) to seed the word
/// generators, so with short seeds every text is empty; the prefix feeds that draw and the
/// enumerated suffix then drives length and characters.
const PREFIXES_E: [&[u8]; 4] = [&[], &[0x00; 8], &[0xff; 8], &[0x01, 0x7f, 0x80, 0xff, 0x00, 0x01, 0x7f, 0x80]];
/// index of the first long prefix (family F)
const FIRST_LONG_PREFIX: usize = 4;
/// Seed prefixes: the short ones of family E, then the long ones of family F (enough entropy to keep
/// choosing the recursive alternative far beyond any configured depth: 64 and 200 equal bytes of
/// every alphabet byte, and an alternating pattern).
fn prefixes() -> &'static Vec<Vec<u8>> {
    static P: std::sync::OnceLock<Vec<Vec<u8>>> = std::sync::OnceLock::new();
    P.get_or_init(|| {
        let mut v: Vec<Vec<u8>> = PREFIXES_E.iter().map(|x| x.to_vec()).collect();
        for b in SEED_ALPHABET {
            v.push(vec![b; 64]);
        }
        v.push(vec![0x01; 200]);
        v.push(vec![0xff; 200]);
        v.push((0..64).map(|i| if i % 2 == 0 { 0x01 } else { 0xff }).collect());
        // every periodic seed of period 2 and 3 over the alphabet (96 bytes), the byte ramp up and down, and
        // sixteen fixed dense seeds of 256 bytes from a linear congruential sequence (a fixed, enumerated
        // part of the seed alphabet: the generator's weighted choices need mixed bytes to keep recursing)
        for a in SEED_ALPHABET {
            for b in SEED_ALPHABET {
                if a != b {
                    v.push((0..96).map(|i| if i % 2 == 0 { a } else { b }).collect());
                }
                for c in SEED_ALPHABET {
                    if !(a == b && b == c) {
                        v.push((0..96).map(|i| [a, b, c][i % 3]).collect());
                    }
                }
            }
        }
        v.push((0..=255u8).collect());
        v.push((0..=255u8).rev().collect());
        let mut x: u64 = 0x2545_f491_4f6c_dd1d;
        for _ in 0..16 {
            let mut sd = Vec::with_capacity(256);
            for _ in 0..256 {
                x = x.wrapping_mul(6364136223846793005).wrapping_add(1442695040888963407);
                sd.push((x >> 33) as u8);
            }
            v.push(sd);
        }
        v
    })
}

// ---------------------------------------------------------------------------------------
// scope

#[derive(Clone)]
struct TyList {
    env: Env,
    tys: Vec<Ty>,
}

#[derive(Clone)]
struct Cfg {
    name: String,
    text: String,
    /// (method, position) of the `Scope` argument
    scope: Option<(String, Option<String>)>,
    /// min(configured depth, configured size) when the configuration limits depth/size
    lim: Option<i64>,
}

#[derive(Clone)]
struct Unit {
    list: usize,
    cfg: usize,
    nseeds: u64,
    /// index into PREFIXES: bytes put in front of every enumerated seed
    prefix: usize,
    /// run every input in announced ("step") mode from the start
    step: bool,
    family: &'static str,
}

struct ScopeDef {
    lists: Vec<TyList>,
    cfgs: Vec<Cfg>,
    units: Vec<Unit>,
    seeds: Vec<Vec<u8>>,
    notes: Vec<String>,
    summary: Value,
}

/// number of byte strings of length 0..=l over the alphabet
fn seeds_upto(l: usize) -> u64 {
    let k = SEED_ALPHABET.len() as u64;
    (0..=l as u32).map(|i| k.pow(i)).sum()
}

/// all byte strings of length 0..=l, ordered by length, then by alphabet index
fn all_seeds(l: usize) -> Vec<Vec<u8>> {
    let mut out: Vec<Vec<u8>> = vec![vec![]];
    let mut prev: Vec<Vec<u8>> = vec![vec![]];
    for _ in 0..l {
        let mut next = Vec::with_capacity(prev.len() * SEED_ALPHABET.len());
        for p in &prev {
            for b in SEED_ALPHABET {
                let mut q = p.clone();
                q.push(b);
                next.push(q);
            }
        }
        out.extend(next.iter().cloned());
        prev = next;
    }
    out
}

fn p(x: P) -> Ty {
    Ty::Prim(x)
}

fn merged_recursive_env() -> (Env, Vec<Ty>) {
    let mut env = Env::new();
    let mut roots = vec![];
    for (e, r) in recursive_envs("r") {
        env = env.merge_disjoint(&e);
        roots.push(r);
    }
    // a recursive variant whose base case and step both mention one finite named type (twice in all):
    // the generator's size estimate walks named types with a `seen` set
    // (rQ mentions the named type rK twice, side by side)
    let q = Ty::record(vec![(0, Ty::var("rK")), (1, Ty::var("rK"))]);
    let path = Ty::variant(vec![(0, Ty::var("rQ")), (1, Ty::record(vec![(0, Ty::var("rQ")), (1, Ty::var("rP"))]))]);
    // the same with the recursive alternative listed first (alternatives are visited in id order)
    let path2 = Ty::variant(vec![(0, Ty::record(vec![(0, Ty::var("rQ")), (1, Ty::var("rP2"))])), (1, Ty::var("rQ"))]);
    env = env.merge_disjoint(&Env::from(vec![("rK", p(P::Int16)), ("rQ", q), ("rP", path), ("rP2", path2)]));
    roots.push(Ty::var("rP"));
    roots.push(Ty::var("rP2"));
    (env, roots)
}

/// uninhabited / infinitely recursive definitions (and their inhabited look-alikes)
fn infinite_envs() -> Vec<(Env, Ty)> {
    let t = || Ty::var("t");
    vec![
        (Env::from(vec![("t", Ty::record(vec![(0, t())]))]), t()),
        (Env::from(vec![("t", Ty::variant(vec![(0, t())]))]), t()),
        (Env::from(vec![("t", Ty::vec(t()))]), t()),
        (Env::from(vec![("t", Ty::opt(t()))]), t()),
        (
            Env::from(vec![("a", Ty::record(vec![(0, Ty::var("b"))])), ("b", Ty::record(vec![(0, Ty::var("a"))]))]),
            Ty::var("a"),
        ),
        (Env::from(vec![("t", Ty::record(vec![(0, p(P::Nat)), (1, t())]))]), t()),
    ]
}

/// the definitions reachable from `tys`
fn prune_env(env: &Env, tys: &[Ty]) -> Env {
    let mut todo: Vec<String> = vec![];
    for t in tys {
        t.free_vars(&mut todo);
    }
    let mut out = Env::new();
    while let Some(n) = todo.pop() {
        if out.0.contains_key(&n) {
            continue;
        }
        if let Some(d) = env.get(&n) {
            out.0.insert(n.clone(), d.clone());
            d.free_vars(&mut todo);
        }
    }
    out
}

fn configs() -> Vec<Cfg> {
    let mut v: Vec<Cfg> = vec![];
    let mut add = |name: &str, text: String, lim: Option<i64>| {
        v.push(Cfg { name: name.to_string(), text, scope: None, lim });
    };
    add("default", String::new(), None);
    add("random={}", "[random]\n".into(), None);
    let vars = ["rL", "rN", "rT", "rA", "rR", "rP", "rP2", "t", "a"];
    for key in ["depth", "size"] {
        let vals: &[i64] = if key == "depth" { &[0, 1, 4] } else { &[0, 1, 5] };
        for d in vals {
            add(&format!("{key}={d}@root"), format!("[random]\n{key} = {d}\n"), Some(*d));
            add(
                &format!("{key}={d}@args"),
                format!("[random]\n\"0\" = {{ {key} = {d} }}\n\"1\" = {{ {key} = {d} }}\n"),
                Some(*d),
            );
            let body: String = vars.iter().map(|n| format!("{n} = {{ {key} = {d} }}\n")).collect();
            add(&format!("{key}={d}@vars"), format!("[random]\n{body}"), Some(*d));
        }
    }
    for w in [0, 1] {
        add(&format!("width={w}@root"), format!("[random]\nwidth = {w}\n"), None);
    }
    add("width=0@vec", "[random]\nvec = { width = 0 }\n".into(), None);
    add("width=1@text", "[random]\ntext = { width = 1 }\n".into(), None);
    for (n, r) in [
        ("[0,0]", "[0, 0]"),
        ("[-1,1]", "[-1, 1]"),
        ("[10,5]", "[10, 5]"),
        ("[i64min,i64max]", "[-9223372036854775808, 9223372036854775807]"),
        ("[-5,-1]", "[-5, -1]"),
        ("[5,300]", "[5, 300]"),
    ] {
        add(&format!("range={n}@root"), format!("[random]\nrange = {r}\n"), None);
    }
    add("range=[10,5]@nat8", "[random]\nnat8 = { range = [10, 5] }\n".into(), None);
    add("range=[0,0]@toplevel-without-random-key", "range = [0, 0]\n".into(), None);
    for t in ["ascii", "emoji", "name", "none", "bogus"] {
        add(&format!("text={t}@root"), format!("[random]\ntext = \"{t}\"\n"), None);
    }
    let values: Vec<(&str, &str)> = vec![
        ("[]", r#"[]"#),
        ("[42]", r#"["42"]"#),
        ("[-1]", r#"["-1"]"#),
        ("[300]", r#"["300"]"#),
        ("[1.5]", r#"["1.5"]"#),
        ("[null,true]", r#"["null", "true"]"#),
        ("[text-a]", r#"["\"a\""]"#),
        ("[opt-1]", r#"["opt 1"]"#),
        ("[vec{1;2},blob]", r#"["vec { 1; 2 }", "blob \"ab\""]"#),
        ("[record{1},record{0=1;1=text}]", r#"["record { 1 }", "record { 0 = 1; 1 = \"x\" }"]"#),
        ("[variant{0},variant{1=7}]", r#"["variant { 0 }", "variant { 1 = 7 }"]"#),
        ("[principal,service,func]", r#"["principal \"aaaaa-aa\"", "service \"aaaaa-aa\"", "func \"aaaaa-aa\".m"]"#),
        ("[42:nat8]", r#"["(42 : nat8)"]"#),
        ("[syntax-error]", r#"["nonsense ("]"#),
    ];
    for (n, l) in values {
        add(&format!("value={n}@root"), format!("[random]\nvalue = {l}\n"), None);
    }
    add("value=[42,-1]@nat", "[random]\nnat = { value = [\"42\", \"-1\"] }\n".into(), None);
    add("value=[42]@nat8+int64+nat+float64", "[random]\nnat8 = { value = [\"42\"] }\nint64 = { value = [\"42\"] }\nnat = { value = [\"42\"] }\nfloat64 = { value = [\"42\"] }\nint = { value = [\"42\"] }\n".into(), None);
    add("value=[42]@label5", "[random]\n\"5\" = { value = [\"42\"] }\n".into(), None);
    add("value=[42]@labels", "[random]\n\"0\" = { value = [\"42\"] }\n\"1\" = { value = [\"42\"] }\n".into(), None);
    add("value=[42,7]@labels+nat8", "[random]\n\"0\" = { value = [\"42\", \"7\"] }\n\"1\" = { value = [\"7\", \"42\"] }\nnat8 = { value = [\"42\"] }\n".into(), None);
    add("value=[null]@field1", "[random]\n\"1\" = { value = [\"null\"] }\n".into(), None);
    add("malformed:depth-is-a-string", "[random]\ndepth = \"x\"\n".into(), None);
    // scoped configuration: `func:<method>` and `arg:<i>` tables
    let scoped = "[random]\nrange = [0, 0]\n[random.\"func:f\"]\nrange = [-1, 1]\ntext = \"emoji\"\nrT = { depth = 1 }\n[random.\"func:f\".\"arg:0\"]\nrange = [7, 7]\nwidth = 1\nnat8 = { range = [9, 9] }\nrL = { depth = 0 }\n";
    for (n, sc) in [
        ("scope=none", None),
        ("scope=f/arg", Some(("f", Some("arg")))),
        ("scope=f/ret", Some(("f", Some("ret")))),
        ("scope=f/-", Some(("f", None))),
        ("scope=g/arg", Some(("g", Some("arg")))),
    ] {
        v.push(Cfg {
            name: format!("scoped:{n}"),
            text: scoped.to_string(),
            scope: sc.map(|(m, p)| (m.to_string(), p.map(|s: &str| s.to_string()))),
            lim: None,
        });
    }
    v.push(Cfg { name: "default:scope=f/arg".into(), text: String::new(), scope: Some(("f".into(), Some("arg".into()))), lim: None });
    v
}

fn build_scope(tier: Tier) -> ScopeDef {
    let mut notes = vec![];
    let empty = Env::new();
    let leaves = [P::Null, P::Bool, P::Nat, P::Int, P::Nat8, P::Int64, P::Float64, P::Text, P::Reserved, P::Empty, P::Principal];
    let alpha = TyAlphabet {
        leaves: leaves.iter().map(|x| p(*x)).collect(),
        opt: true,
        vec: true,
        record_labels: vec![vec![], vec![0], vec![0, 1]],
        variant_labels: vec![vec![], vec![0], vec![0, 1]],
        funcs: vec![],
        services: vec![],
        func_arg_pool: 0,
    };
    let t1 = gen::terms(&alpha, 1);
    let ralpha = TyAlphabet {
        leaves: vec![p(P::Nat), p(P::Text)],
        opt: false,
        vec: false,
        record_labels: vec![],
        variant_labels: vec![],
        funcs: vec![
            FuncShape { nargs: 0, nrets: 0, modes: vec![] },
            FuncShape { nargs: 1, nrets: 1, modes: vec![Mode::Query] },
            FuncShape { nargs: 1, nrets: 0, modes: vec![Mode::Oneway] },
        ],
        services: vec![vec![], vec!["m".into()], vec!["m".into(), "n".into()]],
        func_arg_pool: 2,
    };
    let mut refs: Vec<Ty> =
        gen::terms(&ralpha, 1).into_iter().filter(|t| matches!(t, Ty::Func(_) | Ty::Service(_))).collect();
    let f0 = refs.iter().find(|t| matches!(t, Ty::Func(_))).unwrap().clone();
    let s0 = refs.iter().find(|t| matches!(t, Ty::Service(_))).unwrap().clone();
    refs.push(Ty::opt(f0.clone()));
    refs.push(Ty::vec(s0.clone()));
    refs.push(Ty::record(vec![(0, f0.clone()), (1, s0.clone())]));
    let (renv, roots) = merged_recursive_env();

    let mut lists: Vec<TyList> = vec![];
    let mut fam: Vec<&'static str> = vec![];
    let push = |lists: &mut Vec<TyList>, fam: &mut Vec<&'static str>, f: &'static str, env: &Env, tys: Vec<Ty>| -> usize {
        lists.push(TyList { env: prune_env(env, &tys), tys });
        fam.push(f);
        lists.len() - 1
    };
    // ---- FULL: every list of the universe
    let mut full: Vec<usize> = vec![];
    let mut rec_lists: Vec<usize> = vec![];
    full.push(push(&mut lists, &mut fam, "arity0", &empty, vec![]));
    for t in &t1 {
        full.push(push(&mut lists, &mut fam, "T1:depth<=1", &empty, vec![t.clone()]));
    }
    for t in &refs {
        full.push(push(&mut lists, &mut fam, "refs", &empty, vec![t.clone()]));
    }
    for r in &roots {
        for t in [r.clone(), Ty::opt(r.clone()), Ty::vec(r.clone()), Ty::record(vec![(0, r.clone()), (1, r.clone())])] {
            let ix = push(&mut lists, &mut fam, "recursive", &renv, vec![t]);
            full.push(ix);
            rec_lists.push(ix);
        }
    }
    let pair_set: Vec<Ty> = vec![
        p(P::Nat),
        p(P::Text),
        p(P::Bool),
        p(P::Empty),
        p(P::Reserved),
        Ty::opt(p(P::Nat)),
        Ty::vec(p(P::Nat8)),
        Ty::record(vec![(0, p(P::Nat)), (1, p(P::Text))]),
        Ty::variant(vec![(0, p(P::Null)), (1, p(P::Nat))]),
        Ty::variant(vec![]),
        f0.clone(),
        roots[0].clone(),
    ];
    for a in &pair_set {
        for b in &pair_set {
            full.push(push(&mut lists, &mut fam, "pairs", &renv, vec![a.clone(), b.clone()]));
        }
    }
    // ---- RED: the reduced list crossed with every configuration
    let mut red: Vec<usize> = vec![];
    red.push(push(&mut lists, &mut fam, "reduced", &renv, vec![]));
    let mut red_single: Vec<Ty> = pair_set.clone();
    red_single.extend(vec![
        p(P::Int),
        p(P::Nat8),
        p(P::Int64),
        p(P::Float64),
        p(P::Principal),
        p(P::Null),
        Ty::vec(p(P::Text)),
        Ty::opt(p(P::Text)),
        Ty::record(vec![]),
        Ty::variant(vec![(0, p(P::Empty))]),
        Ty::variant(vec![(0, p(P::Empty)), (1, p(P::Int))]),
        Ty::record(vec![(0, p(P::Int)), (1, Ty::opt(p(P::Nat8)))]),
        // one configured literal meets positions of different types inside one argument
        Ty::record(vec![(0, p(P::Nat8)), (1, p(P::Int64))]),
        Ty::record(vec![(0, p(P::Nat8)), (1, Ty::record(vec![(0, p(P::Nat)), (1, p(P::Float64))]))]),
        Ty::vec(Ty::variant(vec![(0, p(P::Nat8)), (1, p(P::Int))])),
        Ty::record(vec![(0, p(P::Text)), (1, Ty::opt(p(P::Nat8))), (2, Ty::vec(p(P::Nat)))]),
        Ty::record(vec![(5, p(P::Nat8)), (6, Ty::record(vec![(5, p(P::Int64))]))]),
        Ty::vec(Ty::record(vec![(5, p(P::Nat8)), (6, Ty::opt(Ty::variant(vec![(5, p(P::Nat)), (7, p(P::Null))])))])),
        s0.clone(),
        roots[1].clone(),
        roots[2].clone(),
        roots[3].clone(),
        roots[4].clone(),
        Ty::vec(roots[2].clone()),
        Ty::opt(roots[0].clone()),
    ]);
    for t in &red_single {
        red.push(push(&mut lists, &mut fam, "reduced", &renv, vec![t.clone()]));
    }
    for (a, b) in [
        (p(P::Nat), p(P::Text)),
        (roots[0].clone(), roots[2].clone()),
        (Ty::vec(p(P::Nat8)), Ty::opt(p(P::Int))),
        (roots[2].clone(), p(P::Nat8)),
    ] {
        red.push(push(&mut lists, &mut fam, "reduced", &renv, vec![a, b]));
    }
    // ---- INF: uninhabited / infinitely recursive definitions
    let mut inf: Vec<usize> = vec![];
    for (e, r) in infinite_envs() {
        for tys in [
            vec![r.clone()],
            vec![Ty::opt(r.clone())],
            vec![Ty::vec(r.clone())],
            vec![p(P::Nat), r.clone()],
            vec![r.clone(), p(P::Nat)],
        ] {
            inf.push(push(&mut lists, &mut fam, "infinite", &e, tys));
        }
    }

    // ---- TXT: text-bearing types for family E
    let mut txt: Vec<usize> = vec![];
    for tys in [
        vec![p(P::Text)],
        vec![Ty::opt(p(P::Text))],
        vec![Ty::vec(p(P::Text))],
        vec![f0.clone()],
        vec![Ty::record(vec![(0, p(P::Text)), (1, p(P::Nat8))])],
        vec![p(P::Text), p(P::Text)],
    ] {
        txt.push(push(&mut lists, &mut fam, "text", &empty, tys));
    }
    let cfgs = configs();
    let by_name = |n: &str| cfgs.iter().position(|c| c.name == n).unwrap_or_else(|| panic!("config {n}"));
    let inf_cfg_names: &[&str] = match tier {
        Tier::Quick => &["default", "depth=0@vars", "value=[null,true]@root"],
        Tier::Thorough => &["default", "depth=0@args", "depth=0@vars", "size=0@args", "width=0@root", "value=[null,true]@root"],
    };
    let inf_cfgs: Vec<usize> = inf_cfg_names.iter().map(|n| by_name(n)).collect();

    let txt_cfgs: Vec<usize> = [
        "default", "text=ascii@root", "text=emoji@root", "text=name@root", "text=none@root", "text=bogus@root", "width=0@root", "width=1@root",
        "width=1@text", "scoped:scope=f/arg",
    ]
    .iter()
    .map(|n| by_name(n))
    .collect();
    let (l_main, l_long, l_inf, l_txt) = match tier {
        Tier::Quick => (4usize, 4usize, 1usize, 4usize),
        Tier::Thorough => (4, 6, 2, 6),
    };
    let seeds = all_seeds(l_main.max(l_long).max(l_inf).max(l_txt));
    let mut units: Vec<Unit> = vec![];
    // A: FULL x {default} at the long seed length
    for &l in &full {
        units.push(Unit { list: l, cfg: 0, nseeds: seeds_upto(l_long), prefix: 0, step: false, family: "A:full-lists x default" });
    }
    // B: RED x all configurations at the long seed length
    for &l in &red {
        for c in 0..cfgs.len() {
            units.push(Unit { list: l, cfg: c, nseeds: seeds_upto(l_long), prefix: 0, step: false, family: "B:reduced-lists x all-configs" });
        }
    }
    // C (thorough only): FULL x all configurations (except default, done in A) at the main seed length
    if tier == Tier::Thorough {
        for &l in &full {
            for c in 1..cfgs.len() {
                units.push(Unit { list: l, cfg: c, nseeds: seeds_upto(l_main), prefix: 0, step: false, family: "C:full-lists x all-configs" });
            }
        }
    }
    // D: INF x reduced configurations, every input announced (expected to kill the worker)
    for &l in &inf {
        for &c in &inf_cfgs {
            units.push(Unit { list: l, cfg: c, nseeds: seeds_upto(l_inf), prefix: 0, step: true, family: "D:infinite-types x reduced-configs" });
        }
    }
    // E: text-bearing lists x text/width configurations x (8-byte prefix ++ every suffix)
    for &l in &txt {
        for &c in &txt_cfgs {
            for pre in 1..PREFIXES_E.len() {
                units.push(Unit { list: l, cfg: c, nseeds: seeds_upto(l_txt), prefix: pre, step: false, family: "E:text-lists x text-configs x 3 seed-prefixes" });
            }
        }
    }
    // F: recursive lists x depth/size configurations at label / definition selectors x long seeds
    //    (a limit keyed on a label that lies on the recursion cycle must still bound the nesting)
    let f_cfgs: Vec<usize> = [
        "default", "depth=0@args", "depth=1@args", "depth=4@args", "depth=4@vars", "size=0@args", "size=1@args", "size=5@args", "depth=0@vars", "depth=1@vars", "size=1@vars", "depth=1@root",
    ]
    .iter()
    .map(|n| by_name(n))
    .collect();
    for &l in &rec_lists {
        for &c in &f_cfgs {
            for pre in FIRST_LONG_PREFIX..prefixes().len() {
                units.push(Unit { list: l, cfg: c, nseeds: seeds_upto(1), prefix: pre, step: false, family: "F:recursive-lists x depth/size-configs x long seeds" });
            }
        }
    }
    let mut per_family: BTreeMap<&str, (u64, u64)> = BTreeMap::new();
    for u in &units {
        let e = per_family.entry(u.family).or_insert((0, 0));
        e.0 += 1;
        e.1 += u.nseeds;
    }
    let total_runs: u64 = units.iter().map(|u| u.nseeds).sum();
    notes.push(format!(
        "type lists: full={} (arity0 1, T1 depth<=1 {}, refs {}, recursive {}, pairs {}), reduced={}, infinite={}; configurations={}; seeds: alphabet {{00,01,7f,80,ff}}, lengths 0..={} (A,B) / 0..={} (C) / 0..={} (D) / 8-byte prefix + 0..={} (E, {} text lists x {} configs x 3 prefixes); units={}; runs={}",
        full.len(), t1.len(), refs.len(), roots.len() * 4, pair_set.len() * pair_set.len(), red.len(), inf.len(), cfgs.len(), l_long, l_main, l_inf, l_txt, txt.len(), txt_cfgs.len(), units.len(), total_runs
    ));
    for (f, (n, r)) in &per_family {
        notes.push(format!("family {f}: {n} units (type list x configuration), {r} runs (x seeds)"));
    }
    let summary = json!({
        "type_lists_full": full.len(), "type_lists_T1_depth<=1": t1.len(), "type_lists_refs": refs.len(),
        "type_lists_recursive": roots.len() * 4, "type_lists_pairs": pair_set.len() * pair_set.len(),
        "type_lists_reduced": red.len(), "type_lists_infinite": inf.len(), "configurations": cfgs.len(),
        "seed_alphabet": "00,01,7f,80,ff", "seed_max_len_A_B": l_long, "seed_max_len_C": l_main, "seed_max_len_D": l_inf, "seed_suffix_max_len_E": l_txt, "seed_prefixes_E": ["0000000000000000", "ffffffffffffffff", "017f80ff00017f80"],
        "type_lists_text": txt.len(), "configurations_E": txt_cfgs.len(),
        "seeds_A_B": seeds_upto(l_long), "units": units.len(), "planned_runs": total_runs,
        "families": per_family.iter().map(|(f, (n, r))| json!({"family": f, "units": n, "runs": r})).collect::<Vec<_>>(),
        "configuration_names": cfgs.iter().map(|c| c.name.clone()).collect::<Vec<_>>(),
    });
    let _ = fam;
    ScopeDef { lists, cfgs, units, seeds, notes, summary }
}

// ---------------------------------------------------------------------------------------
// accounting that crosses the process boundary

#[derive(Serialize, Deserialize, Default, Clone, Debug, PartialEq, Eq, PartialOrd, Ord)]
struct CaseLit {
    env: String,
    types: String,
    config: String,
    scope: Option<(String, Option<String>)>,
    seed: String,
    lim: Option<i64>,
    #[serde(default)]
    config_name: String,
}

impl CaseLit {
    fn order_key(&self) -> (usize, usize, usize, usize, String) {
        (
            self.types.len() + self.env.len(),
            self.config.len(),
            self.scope.as_ref().map_or(0, |s| 1 + s.0.len()),
            self.seed.len(),
            format!("{}|{}|{}|{:?}|{}", self.types, self.env, self.config, self.scope, self.seed),
        )
    }
}

#[derive(Serialize, Deserialize, Clone, Debug)]
struct FailAgg {
    count: u64,
    msg: String,
    min: CaseLit,
    /// a few smallest distinct (env, type list) texts and configuration names
    lists: BTreeSet<(usize, String)>,
    configs: BTreeSet<(usize, String)>,
}

#[derive(Serialize, Deserialize, Default, Debug)]
struct Acc {
    cases: u64,
    calls: u64,
    ok: u64,
    err: u64,
    failed: u64,
    outcomes: BTreeMap<String, u64>,
    maxima: BTreeMap<String, u64>,
    counters: BTreeMap<String, u64>,
    fails: BTreeMap<String, FailAgg>,
    /// keyed by the literal input; the smallest keys are kept (independent of merge order)
    samples: BTreeMap<String, Value>,
}

fn keep_smallest(s: &mut BTreeSet<(usize, String)>, n: usize) {
    while s.len() > n {
        let last = s.iter().next_back().cloned().unwrap();
        s.remove(&last);
    }
}

impl Acc {
    fn outcome(&mut self, k: &str) {
        *self.outcomes.entry(k.to_string()).or_insert(0) += 1;
    }
    fn max(&mut self, k: String, v: u64) {
        let e = self.maxima.entry(k).or_insert(0);
        if v > *e {
            *e = v;
        }
    }
    fn fail(&mut self, class: &str, msg: String, lit: &CaseLit) {
        self.failed += 1;
        let lt = format!("{} {}", lit.env.replace('\n', " "), lit.types).trim().to_string();
        match self.fails.get_mut(class) {
            None => {
                let mut a = FailAgg { count: 1, msg, min: lit.clone(), lists: BTreeSet::new(), configs: BTreeSet::new() };
                a.lists.insert((lt.len(), lt));
                a.configs.insert((lit.config_name.len(), lit.config_name.clone()));
                self.fails.insert(class.to_string(), a);
            }
            Some(a) => {
                a.count += 1;
                if lit.order_key() < a.min.order_key() {
                    a.min = lit.clone();
                    a.msg = msg;
                }
                a.lists.insert((lt.len(), lt));
                a.configs.insert((lit.config_name.len(), lit.config_name.clone()));
                keep_smallest(&mut a.lists, 8);
                keep_smallest(&mut a.configs, 8);
            }
        }
    }
    fn merge(&mut self, o: Acc) {
        self.cases += o.cases;
        self.calls += o.calls;
        self.ok += o.ok;
        self.err += o.err;
        self.failed += o.failed;
        for (k, v) in o.outcomes {
            *self.outcomes.entry(k).or_insert(0) += v;
        }
        for (k, v) in o.counters {
            *self.counters.entry(k).or_insert(0) += v;
        }
        for (k, v) in o.maxima {
            self.max(k, v);
        }
        for (k, f) in o.fails {
            match self.fails.get_mut(&k) {
                None => {
                    self.fails.insert(k, f);
                }
                Some(a) => {
                    a.count += f.count;
                    if f.min.order_key() < a.min.order_key() {
                        a.min = f.min;
                        a.msg = f.msg;
                    }
                    a.lists.extend(f.lists);
                    a.configs.extend(f.configs);
                    keep_smallest(&mut a.lists, 8);
                    keep_smallest(&mut a.configs, 8);
                }
            }
        }
        self.samples.extend(o.samples);
        while self.samples.len() > 6 {
            let last = self.samples.keys().next_back().cloned().unwrap();
            self.samples.remove(&last);
        }
    }
}

// ---------------------------------------------------------------------------------------
// one run (inside the worker)

fn tys_text(ts: &[Ty]) -> String {
    format!("({})", ts.iter().map(|t| t.to_string()).collect::<Vec<_>>().join(", "))
}
fn vals_text(vs: &[Val]) -> String {
    format!("({})", vs.iter().map(|t| t.to_string()).collect::<Vec<_>>().join(", "))
}

fn digits_to_hash(s: &str) -> String {
    let mut out = String::new();
    let mut in_num = false;
    for c in s.chars() {
        if c.is_ascii_digit() {
            if !in_num {
                out.push('#');
            }
            in_num = true;
        } else {
            in_num = false;
            out.push(c);
        }
    }
    out
}
fn clip(s: &str, n: usize) -> String {
    s.chars().take(n).collect()
}
/// coarse kind of an error message: text before the first ':', numbers abstracted
fn err_kind(s: &str) -> String {
    let l = s.lines().next().unwrap_or("");
    let l = l.split(':').next().unwrap_or(l);
    clip(&digits_to_hash(l), 48)
}
/// panic class: message with numbers abstracted + exact source location
fn panic_class(p: &str) -> String {
    match p.rsplit_once(" @ ") {
        Some((m, loc)) => {
            // a dependency's location without the machine-specific registry directory
            let loc = match loc.split_once("/registry/src/") {
                Some((_, rest)) => rest.split_once('/').map_or(rest, |x| x.1),
                None => loc,
            };
            format!("panic:{} @ {}", clip(&digits_to_hash(m.lines().next().unwrap_or("")), 90), loc)
        }
        None => format!("panic:{}", clip(&digits_to_hash(p), 90)),
    }
}

/// acyclic choice depth of a type: the most `opt`/`variant` constructors on a path that
/// unfolds every definition at most once
fn choice_depth(env: &Env, t: &Ty, path: &mut Vec<String>) -> u64 {
    match t {
        Ty::Var(n) => {
            if path.contains(n) {
                0
            } else {
                path.push(n.clone());
                let r = env.get(n).map(|d| choice_depth(env, d, path)).unwrap_or(0);
                path.pop();
                r
            }
        }
        Ty::Opt(x) => 1 + choice_depth(env, x, path),
        Ty::Variant(fs) => 1 + fs.iter().map(|f| choice_depth(env, &f.1, path)).max().unwrap_or(0),
        Ty::Vec(x) => choice_depth(env, x, path),
        Ty::Record(fs) => fs.iter().map(|f| choice_depth(env, &f.1, path)).max().unwrap_or(0),
        _ => 0,
    }
}
/// nested choice nodes of a value (present options and variants)
fn rdepth(v: &Val) -> u64 {
    match v {
        Val::Opt(Some(x)) => 1 + rdepth(x),
        Val::Variant(_, x) => 1 + rdepth(x),
        Val::Vec(vs) => vs.iter().map(rdepth).max().unwrap_or(0),
        Val::Record(fs) => fs.iter().map(|f| rdepth(&f.1)).max().unwrap_or(0),
        _ => 0,
    }
}
fn vdepth(v: &Val) -> u64 {
    match v {
        Val::Opt(Some(x)) => 1 + vdepth(x),
        Val::Variant(_, x) => 1 + vdepth(x),
        Val::Vec(vs) => 1 + vs.iter().map(vdepth).max().unwrap_or(0),
        Val::Record(fs) => 1 + fs.iter().map(|f| vdepth(&f.1)).max().unwrap_or(0),
        _ => 1,
    }
}

struct UnitCtx {
    menv: Env,
    mtys: Vec<Ty>,
    renv: TypeEnv,
    rtys: Vec<Type>,
    configs: Result<Configs, String>,
    scope: Option<(String, Option<String>)>,
    lim: Option<i64>,
    cdepth: Vec<u64>,
    lit: CaseLit,
}

impl UnitCtx {
    fn new(env: &Env, tys: &[Ty], cfg_text: &str, cfg_name: &str, scope: &Option<(String, Option<String>)>, lim: Option<i64>) -> UnitCtx {
        let configs = cfg_text.parse::<Configs>().map_err(|e| format!("{e}"));
        UnitCtx {
            menv: env.clone(),
            mtys: tys.to_vec(),
            renv: bridge::to_real_env(env),
            rtys: tys.iter().map(bridge::to_real_ty).collect(),
            configs,
            scope: scope.clone(),
            lim,
            cdepth: tys.iter().map(|t| choice_depth(env, t, &mut vec![])).collect(),
            lit: CaseLit {
                env: env.to_string(),
                types: tys_text(tys),
                config: cfg_text.to_string(),
                scope: scope.clone(),
                seed: String::new(),
                lim,
                config_name: cfg_name.to_string(),
            },
        }
    }
    fn lit(&self, seed: &[u8]) -> CaseLit {
        let mut l = self.lit.clone();
        l.seed = hex::encode(seed);
        l
    }
}

enum Gen {
    Ok(candid::IDLArgs),
    Err(String),
    Panic(String),
}

fn call_any(u: &UnitCtx, configs: &Configs, seed: &[u8]) -> Gen {
    let scope: Option<Scope> = u.scope.as_ref().map(|(m, p)| Scope {
        method: m.as_str(),
        position: match p.as_deref() {
            Some("arg") => Some(ScopePos::Arg),
            Some("ret") => Some(ScopePos::Ret),
            _ => None,
        },
    });
    watch();
    match catch(|| candid_parser::random::any(seed, configs.clone(), &u.renv, &u.rtys, &scope)) {
        Err(p) => Gen::Panic(p),
        Ok(Err(e)) => Gen::Err(format!("{e}")),
        Ok(Ok(a)) => Gen::Ok(a),
    }
}

/// Run one input and judge it. Returns (outcome class, failure (class, message)).
fn exec_case(u: &UnitCtx, seed: &[u8], acc: &mut Acc) {
    acc.cases += 1;
    let configs = match &u.configs {
        Ok(c) => c,
        Err(e) => {
            // the configuration text is not TOML: rejected before the generator runs
            acc.err += 1;
            acc.outcome(&format!("err:config-not-toml:{}", err_kind(e)));
            return;
        }
    };
    let mut fails: Vec<(String, String)> = vec![];
    acc.calls += 2;
    let g1 = call_any(u, configs, seed);
    let g2 = call_any(u, configs, seed);
    let outcome: String;
    match (&g1, &g2) {
        (Gen::Panic(p), _) => {
            outcome = "fail:panic".into();
            fails.push((panic_class(p), format!("random::any unwinds: {p}")));
        }
        (Gen::Err(e), g2) => {
            outcome = format!("err:{}", err_kind(e));
            acc.err += 1;
            match g2 {
                Gen::Err(e2) if e2 == e => {}
                _ => fails.push(("nondeterministic".into(), format!("first run Err({e}), second run differs"))),
            }
        }
        (Gen::Ok(args), g2) => {
            acc.ok += 1;
            outcome = "ok".into();
            match bridge::from_idl_args(args) {
                Err(b) => fails.push(("bridge:result-not-a-value".into(), b)),
                Ok(vals) => {
                    // (e) determinism
                    match g2 {
                        Gen::Ok(a2) => {
                            let same = bridge::from_idl_args(a2).map(|v2| v2 == vals).unwrap_or(false) && format!("{a2}") == format!("{args}");
                            if !same {
                                fails.push(("nondeterministic".into(), format!("first run {args}, second run {a2}")));
                            }
                        }
                        _ => fails.push(("nondeterministic".into(), format!("first run {args}, second run is not Ok"))),
                    }
                    if vals.len() != u.mtys.len() {
                        fails.push(("arity".into(), format!("{} values for {} types", vals.len(), u.mtys.len())));
                    } else {
                        // (a) annotate_types maps the values to themselves
                        for fp in [false, true] {
                            acc.calls += 1;
                            watch();
                            match catch(|| args.clone().annotate_types(fp, &u.renv, &u.rtys)) {
                                Err(pm) => fails.push((format!("annotate({fp}):{}", panic_class(&pm)), format!("annotate_types({fp}) unwinds on {args}: {pm}"))),
                                Ok(Err(e)) => fails.push((
                                    format!("annotate({fp})-err:{}", err_kind(&format!("{e}"))),
                                    format!("generated {args} but annotate_types({fp}) fails: {e}"),
                                )),
                                Ok(Ok(a2)) => match bridge::from_idl_args(&a2) {
                                    Ok(v2) if v2 == vals => {}
                                    Ok(v2) => fails.push((
                                        format!("annotate({fp})-changes-value"),
                                        format!("generated {} but annotate_types({fp}) gives {}", vals_text(&vals), vals_text(&v2)),
                                    )),
                                    Err(b) => fails.push((format!("annotate({fp})-bridge"), b)),
                                },
                            }
                        }
                        // (b) encodes at the requested types; R2 decodes the same values; R1 types them
                        acc.calls += 1;
                        watch();
                        match catch(|| args.to_bytes_with_types(&u.renv, &u.rtys)) {
                            Err(pm) => fails.push((format!("encode:{}", panic_class(&pm)), format!("to_bytes_with_types unwinds on {args}: {pm}"))),
                            Ok(Err(e)) => fails.push((
                                format!("encode-err:{}", err_kind(&format!("{e}"))),
                                format!("generated {args} but to_bytes_with_types fails: {e}"),
                            )),
                            Ok(Ok(bytes)) => match wire::decode(&bytes, &Limits::default()) {
                                Err(e) => fails.push((
                                    "encode-not-decodable".into(),
                                    format!("generated {args}; encoding {} is rejected by the reference decoder: {e:?}", hex::encode(&bytes)),
                                )),
                                Ok(d) => {
                                    if d.vals != vals {
                                        fails.push((
                                            "encode-decodes-to-other-value".into(),
                                            format!("generated {} but the encoding decodes to {}", vals_text(&vals), vals_text(&d.vals)),
                                        ));
                                    }
                                }
                            },
                        }
                        for (v, t) in vals.iter().zip(&u.mtys) {
                            if !has_type(&u.menv, v, t) {
                                fails.push(("not-an-inhabitant".into(), format!("generated {v} which does not have type {t}")));
                            }
                        }
                        if vals.iter().any(has_nonempty_text) {
                            *acc.counters.entry("ok_runs_with_nonempty_text".into()).or_insert(0) += 1;
                        }
                        // (d) size
                        let nodes: u64 = vals.iter().map(|v| v.nodes()).sum();
                        let depth: u64 = vals.iter().map(vdepth).max().unwrap_or(0);
                        let rd: u64 = vals.iter().map(rdepth).max().unwrap_or(0);
                        acc.max(format!("{}|max_nodes", u.lit.config_name), nodes);
                        acc.max(format!("{}|max_depth", u.lit.config_name), depth);
                        acc.max(format!("{}|max_choice_depth", u.lit.config_name), rd);
                        if let Some(lim) = u.lim {
                            for (v, c) in vals.iter().zip(&u.cdepth) {
                                // within the configured depth: the limit itself, the choices the type makes before it
                                // can recurse at all, and one level of slack (the unchanged tree stays at or below
                                // max(limit, acyclic depth) on every run of every tier)
                                let bound = lim.max(0) as u64 + c + 1;
                                let r = rdepth(v);
                                let at = u.lit.config_name.rsplit('@').next().unwrap_or("?").to_string();
                                if r > bound && at == "root" {
                                    // depth/size given at the root of the config are documented as soft
                                    // limits and are not applied without a selector: informational only
                                    *acc.counters.entry("informational:root-level-depth/size-not-applied".into()).or_insert(0) += 1;
                                } else if r > bound {
                                    fails.push((
                                        format!("size-bound:limit-set-at-{}", u.lit.config_name.rsplit('@').next().unwrap_or("?")),
                                        format!(
                                            "configuration limits depth/size to {lim}, the type's acyclic choice depth is {c}, but the value {v} nests {r} choice nodes (> {}+{c}+1)",
                                            lim.max(0)
                                        ),
                                    ));
                                }
                            }
                        }
                    }
                    if seed.len() == 3 && u.menv.0.len() == 1 && nodes_of(&vals) > 4 {
                        let k = format!("{}|{}|{}", u.lit.types, u.lit.config_name, hex::encode(seed));
                        if acc.samples.len() < 6 || acc.samples.keys().next_back().is_some_and(|l| k < *l) {
                            acc.samples.insert(
                                k,
                                json!({"env": u.lit.env, "types": u.lit.types, "config": u.lit.config_name, "seed": hex::encode(seed), "generated": vals_text(&vals)}),
                            );
                            while acc.samples.len() > 6 {
                                let last = acc.samples.keys().next_back().cloned().unwrap();
                                acc.samples.remove(&last);
                            }
                        }
                    }
                }
            }
        }
    }
    if fails.is_empty() {
        acc.outcome(&outcome);
    } else {
        let lit = u.lit(seed);
        // one failing case counts once, under its first clause; every clause is recorded
        acc.outcome(&format!("fail:{}", fails[0].0.split(':').next().unwrap_or("")));
        let n = fails.len();
        for (i, (c, m)) in fails.into_iter().enumerate() {
            acc.fail(&c, m, &lit);
            if i + 1 < n {
                acc.failed -= 1;
            }
        }
    }
}

fn has_nonempty_text(v: &Val) -> bool {
    match v {
        Val::Text(s) => !s.is_empty(),
        Val::Func(_, m) => !m.is_empty(),
        Val::Opt(Some(x)) | Val::Variant(_, x) => has_nonempty_text(x),
        Val::Vec(vs) => vs.iter().any(has_nonempty_text),
        Val::Record(fs) => fs.iter().any(|f| has_nonempty_text(&f.1)),
        _ => false,
    }
}

fn nodes_of(vs: &[Val]) -> u64 {
    vs.iter().map(|v| v.nodes()).sum()
}

// ---------------------------------------------------------------------------------------
// worker process

static CUR_START_MS: AtomicU64 = AtomicU64::new(0);
static T0: std::sync::OnceLock<Instant> = std::sync::OnceLock::new();
/// (re)start the watchdog clock: called before every call into the subject
fn watch() {
    if let Some(t0) = T0.get() {
        CUR_START_MS.store(t0.elapsed().as_millis() as u64 + 1, Ordering::Relaxed);
    }
}
static CUR_UNIT: AtomicU64 = AtomicU64::new(0);
static CUR_SEED: AtomicU64 = AtomicU64::new(0);

fn parse_env_and_types(env_src: &str, tys_src: &str) -> Result<(Env, Vec<Ty>), String> {
    use candid_parser::syntax::{IDLProg, IDLTypes};
    let prog: IDLProg = env_src.parse().map_err(|e| format!("{e}"))?;
    let mut te = TypeEnv::new();
    candid_parser::check_prog(&mut te, &prog).map_err(|e| format!("{e}"))?;
    let tys: IDLTypes = tys_src.parse().map_err(|e| format!("{e}"))?;
    let mut out = vec![];
    let mut knots = Env::new();
    for t in &tys.args {
        let rt = candid_parser::typing::ast_to_type(&te, &t.typ).map_err(|e| format!("{e}"))?;
        out.push(bridge::from_real_ty(&rt, &mut knots)?);
    }
    Ok((bridge::from_real_env(&te)?, out))
}

fn seed_of(sc: &ScopeDef, u: usize, i: u64) -> Vec<u8> {
    let mut s = prefixes()[sc.units[u].prefix].clone();
    s.extend(&sc.seeds[i as usize]);
    s
}

fn unit_ctx(sc: &ScopeDef, u: usize) -> UnitCtx {
    let unit = &sc.units[u];
    let l = &sc.lists[unit.list];
    let c = &sc.cfgs[unit.cfg];
    UnitCtx::new(&l.env, &l.tys, &c.text, &c.name, &c.scope, c.lim)
}

fn emit(line: &str) {
    let out = std::io::stdout();
    let mut o = out.lock();
    let _ = o.write_all(line.as_bytes());
    let _ = o.write_all(b"\n");
    let _ = o.flush();
}

/// Self-test of the dead-worker logic only: `C20_SELFTEST_ABORT=<unit>:<seed index>` makes
/// the worker abort when it reaches that input (never set by the driver).
fn selftest_abort(unit: usize, seed: u64) {
    if let Ok(v) = std::env::var("C20_SELFTEST_ABORT") {
        if v == format!("{unit}:{seed}") {
            std::process::abort();
        }
    }
}

fn worker_loop(sc: Arc<ScopeDef>, t0: Instant) {
    let stdin = std::io::stdin();
    let mut line = String::new();
    let now_ms = || t0.elapsed().as_millis() as u64 + 1;
    loop {
        line.clear();
        match stdin.lock().read_line(&mut line) {
            Ok(0) | Err(_) => return,
            Ok(_) => {}
        }
        let cmd: Value = match serde_json::from_str(line.trim()) {
            Ok(v) => v,
            Err(_) => continue,
        };
        match cmd["cmd"].as_str() {
            Some("bulk") => {
                let u = cmd["unit"].as_u64().unwrap() as usize;
                let ctx = unit_ctx(&sc, u);
                let mut acc = Acc::default();
                CUR_UNIT.store(u as u64, Ordering::Relaxed);
                for i in 0..sc.units[u].nseeds {
                    CUR_SEED.store(i, Ordering::Relaxed);
                    CUR_START_MS.store(now_ms(), Ordering::Relaxed);
                    selftest_abort(u, i);
                    exec_case(&ctx, &seed_of(&sc, u, i), &mut acc);
                }
                CUR_START_MS.store(0, Ordering::Relaxed);
                emit(&format!("R {}", serde_json::to_string(&acc).unwrap()));
            }
            Some("step") => {
                let u = cmd["unit"].as_u64().unwrap() as usize;
                let from = cmd["from"].as_u64().unwrap();
                let ctx = unit_ctx(&sc, u);
                CUR_UNIT.store(u as u64, Ordering::Relaxed);
                for i in from..sc.units[u].nseeds {
                    emit(&format!("S {i}"));
                    CUR_SEED.store(i, Ordering::Relaxed);
                    CUR_START_MS.store(now_ms(), Ordering::Relaxed);
                    let mut acc = Acc::default();
                    selftest_abort(u, i);
                    exec_case(&ctx, &seed_of(&sc, u, i), &mut acc);
                    CUR_START_MS.store(0, Ordering::Relaxed);
                    emit(&format!("C {}", serde_json::to_string(&acc).unwrap()));
                }
                emit("E");
            }
            Some("case") => {
                let lit: CaseLit = serde_json::from_value(cmd["case"].clone()).expect("case literal");
                let (env, tys) = match parse_env_and_types(&lit.env, &lit.types) {
                    Ok(x) => x,
                    Err(e) => {
                        emit(&format!("X cannot parse the recorded types: {e}"));
                        continue;
                    }
                };
                let ctx = UnitCtx::new(&env, &tys, &lit.config, &lit.config_name, &lit.scope, lit.lim);
                let seed = hex::decode(&lit.seed).unwrap_or_default();
                emit("S 0");
                CUR_UNIT.store(u64::MAX, Ordering::Relaxed);
                CUR_SEED.store(0, Ordering::Relaxed);
                CUR_START_MS.store(now_ms(), Ordering::Relaxed);
                let mut acc = Acc::default();
                exec_case(&ctx, &seed, &mut acc);
                CUR_START_MS.store(0, Ordering::Relaxed);
                emit(&format!("C {}", serde_json::to_string(&acc).unwrap()));
                emit("E");
            }
            _ => {}
        }
    }
}

fn worker_main(tier: Tier) -> ! {
    install_quiet_panic_hook();
    let t0 = Instant::now();
    let _ = T0.set(t0);
    let sc = Arc::new(build_scope(tier));
    let h = std::thread::Builder::new()
        .name("generator".into())
        .stack_size(STACK_BYTES)
        .spawn(move || worker_loop(sc, t0))
        .expect("spawn worker thread");
    loop {
        std::thread::sleep(std::time::Duration::from_millis(50));
        if h.is_finished() {
            std::process::exit(if h.join().is_ok() { 0 } else { 4 });
        }
        let s = CUR_START_MS.load(Ordering::Relaxed);
        if s != 0 {
            let now = t0.elapsed().as_millis() as u64 + 1;
            if now > s && now - s > HANG_MS && CUR_START_MS.load(Ordering::Relaxed) == s {
                emit(&format!("H {}", CUR_SEED.load(Ordering::Relaxed)));
                std::process::exit(3);
            }
        }
    }
}

// ---------------------------------------------------------------------------------------
// parent side

struct Child {
    proc: std::process::Child,
    stdin: std::process::ChildStdin,
    stdout: BufReader<std::process::ChildStdout>,
}

static MACHINERY_ERRORS: AtomicU64 = AtomicU64::new(0);
static CHILD_SPAWNS: AtomicU64 = AtomicU64::new(0);

impl Child {
    fn spawn(tier: Tier) -> Child {
        CHILD_SPAWNS.fetch_add(1, Ordering::Relaxed);
        let exe = std::env::current_exe().expect("current_exe");
        let mut proc = std::process::Command::new(exe)
            .arg("--worker")
            .arg(tier.name())
            // error values must not depend on the caller's environment: with RUST_BACKTRACE
            // set, anyhow captures (and `unwrap` prints) a backtrace of the whole stack
            .env_remove("RUST_LIB_BACKTRACE")
            .env("RUST_BACKTRACE", "0")
            .stdin(std::process::Stdio::piped())
            .stdout(std::process::Stdio::piped())
            .stderr(std::process::Stdio::piped())
            .spawn()
            .expect("spawn worker process");
        let stdin = proc.stdin.take().unwrap();
        let stdout = BufReader::new(proc.stdout.take().unwrap());
        Child { proc, stdin, stdout }
    }
    fn send(&mut self, v: &Value) -> bool {
        let mut s = serde_json::to_string(v).unwrap();
        s.push('\n');
        self.stdin.write_all(s.as_bytes()).and_then(|_| self.stdin.flush()).is_ok()
    }
    fn read(&mut self) -> Option<String> {
        let mut l = String::new();
        match self.stdout.read_line(&mut l) {
            Ok(0) | Err(_) => None,
            Ok(_) => Some(l.trim_end().to_string()),
        }
    }
    /// wait for the (dead) child; describe how it died
    fn reap(mut self) -> String {
        drop(self.stdin);
        let status = self.proc.wait();
        let mut err = String::new();
        if let Some(mut e) = self.proc.stderr.take() {
            let _ = e.read_to_string(&mut err);
        }
        let how = match status {
            Ok(st) => {
                use std::os::unix::process::ExitStatusExt;
                match (st.signal(), st.code()) {
                    (Some(s), _) => format!("signal-{s}"),
                    (_, Some(c)) => format!("exit-code-{c}"),
                    _ => "unknown".into(),
                }
            }
            Err(e) => format!("wait-error-{e}"),
        };
        if err.contains("overflowed its stack") {
            format!("stack-overflow({how})")
        } else if err.contains("memory allocation") {
            format!("allocation-failure({how})")
        } else {
            how
        }
    }
}

fn shutdown(c: Child) {
    let Child { mut proc, stdin, stdout } = c;
    drop(stdin);
    drop(stdout);
    let _ = proc.wait();
}

struct ThreadState {
    child: Option<Child>,
    tier: Tier,
}
impl Drop for ThreadState {
    fn drop(&mut self) {
        if let Some(c) = self.child.take() {
            shutdown(c);
        }
    }
}

fn lit_of(sc: &ScopeDef, u: usize, seed_idx: u64) -> CaseLit {
    let unit = &sc.units[u];
    let l = &sc.lists[unit.list];
    let c = &sc.cfgs[unit.cfg];
    CaseLit {
        env: l.env.to_string(),
        types: tys_text(&l.tys),
        config: c.text.clone(),
        scope: c.scope.clone(),
        seed: hex::encode(seed_of(sc, u, seed_idx)),
        lim: c.lim,
        config_name: c.name.clone(),
    }
}

fn dead_child_verdict(acc: &mut Acc, how: &str, lit: &CaseLit) {
    acc.cases += 1;
    acc.calls += 1;
    let class = format!("abort:{how}");
    acc.outcome(&format!("fail:abort:{how}"));
    acc.fail(&class, format!("random::any kills the process ({how}) instead of returning"), lit);
}
fn hang_verdict(acc: &mut Acc, lit: &CaseLit) {
    acc.cases += 1;
    acc.calls += 1;
    acc.outcome("fail:non-termination");
    acc.fail("non-termination(>5s)", format!("random::any did not return within {HANG_MS} ms"), lit);
}

/// Run unit `u` completely; returns its accounting.
fn run_unit(sc: &ScopeDef, st: &mut ThreadState, u: usize) -> Acc {
    let unit = &sc.units[u];
    let mut acc = Acc::default();
    if !unit.step {
        let c = st.child.get_or_insert_with(|| Child::spawn(st.tier));
        c.send(&json!({"cmd": "bulk", "unit": u}));
        match c.read() {
            Some(l) if l.starts_with("R ") => {
                let a: Acc = serde_json::from_str(&l[2..]).expect("unit report");
                return a;
            }
            _ => {
                // died or hung somewhere inside the unit: locate the input in step mode
                let c = st.child.take().unwrap();
                let _ = c.reap();
                acc.counters.insert("bulk_units_rerun_in_step_mode".into(), 1);
            }
        }
    }
    let mut from = 0u64;
    while from < unit.nseeds {
        let c = st.child.get_or_insert_with(|| Child::spawn(st.tier));
        c.send(&json!({"cmd": "step", "unit": u, "from": from}));
        let mut last: Option<u64> = None;
        loop {
            match c.read() {
                Some(l) if l.starts_with("S ") => last = l[2..].parse().ok(),
                Some(l) if l.starts_with("C ") => {
                    let a: Acc = serde_json::from_str(&l[2..]).expect("case report");
                    acc.merge(a);
                }
                Some(l) if l == "E" => return acc,
                Some(l) if l.starts_with("H ") => {
                    let i: u64 = l[2..].parse().unwrap_or(last.unwrap_or(from));
                    let c = st.child.take().unwrap();
                    let _ = c.reap();
                    hang_verdict(&mut acc, &lit_of(sc, u, i));
                    from = i + 1;
                    break;
                }
                Some(_) => {}
                None => {
                    let c = st.child.take().unwrap();
                    let how = c.reap();
                    match last {
                        Some(i) => {
                            dead_child_verdict(&mut acc, &how, &lit_of(sc, u, i));
                            from = i + 1;
                        }
                        None => {
                            // died before announcing any input: not a verdict
                            MACHINERY_ERRORS.fetch_add(1, Ordering::Relaxed);
                            eprintln!("ENGINE-ERROR: worker died ({how}) before announcing an input of unit {u}");
                            return acc;
                        }
                    }
                    break;
                }
            }
        }
    }
    acc
}

/// Run one literal case in a fresh worker; the returned accounting has exactly one case.
fn run_isolated(tier: Tier, lit: &CaseLit) -> Result<Acc, String> {
    let mut c = Child::spawn(tier);
    c.send(&json!({"cmd": "case", "case": lit}));
    let mut acc = Acc::default();
    let mut announced = false;
    loop {
        match c.read() {
            Some(l) if l.starts_with("S ") => announced = true,
            Some(l) if l.starts_with("C ") => acc.merge(serde_json::from_str(&l[2..]).map_err(|e| format!("{e}"))?),
            Some(l) if l == "E" => {
                shutdown(c);
                return Ok(acc);
            }
            Some(l) if l.starts_with("X ") => {
                shutdown(c);
                return Err(l[2..].to_string());
            }
            Some(l) if l.starts_with("H ") => {
                let _ = c.reap();
                hang_verdict(&mut acc, lit);
                return Ok(acc);
            }
            Some(_) => {}
            None => {
                let how = c.reap();
                if !announced {
                    return Err(format!("worker died ({how}) before running the case"));
                }
                dead_child_verdict(&mut acc, &how, lit);
                return Ok(acc);
            }
        }
    }
}

fn violation_key(class: &str, lit: &CaseLit) -> String {
    let scope = match &lit.scope {
        None => "-".to_string(),
        Some((m, p)) => format!("{m}/{}", p.clone().unwrap_or("-".into())),
    };
    format!(
        "{class}|types={}|env={}|config={}|scope={scope}",
        lit.types,
        lit.env.replace('\n', ""),
        lit.config.replace('\n', ";")
    )
}

fn parse_args() -> (Tier, Option<String>, Vec<String>) {
    let args: Vec<String> = std::env::args().collect();
    let mut tier = match std::env::var("VERIF_TIER").as_deref() {
        Ok("thorough") => Tier::Thorough,
        _ => Tier::Quick,
    };
    let mut replay = None;
    let mut rest = vec![];
    let mut i = 1;
    while i < args.len() {
        match args[i].as_str() {
            "--tier" => {
                i += 1;
                tier = if args.get(i).map(|s| s.as_str()) == Some("thorough") { Tier::Thorough } else { Tier::Quick };
            }
            "--replay" => {
                i += 1;
                replay = args.get(i).cloned();
            }
            o => rest.push(o.to_string()),
        }
        i += 1;
    }
    (tier, replay, rest)
}

fn replay(path: &str, tier: Tier) -> i32 {
    let s = match std::fs::read_to_string(path) {
        Ok(s) => s,
        Err(e) => {
            eprintln!("cannot read {path}: {e}");
            return 2;
        }
    };
    let v: Value = match serde_json::from_str(&s) {
        Ok(v) => v,
        Err(e) => {
            eprintln!("replay file is not JSON: {e}");
            return 2;
        }
    };
    let lit: CaseLit = match serde_json::from_value(v["case"]["input"].clone()) {
        Ok(l) => l,
        Err(e) => {
            eprintln!("replay file has no case.input literal: {e}");
            return 2;
        }
    };
    let want = v["case"]["class"].as_str().unwrap_or("").to_string();
    match run_isolated(tier, &lit) {
        Err(e) => {
            eprintln!("ENGINE-ERROR: {e}");
            2
        }
        Ok(acc) => {
            if acc.fails.is_empty() {
                println!(
                    "not reproduced: types {} config {:?} seed {} -> outcomes {:?}",
                    lit.types,
                    lit.config,
                    lit.seed,
                    acc.outcomes.keys().collect::<Vec<_>>()
                );
                0
            } else {
                for (class, f) in &acc.fails {
                    let tag = if *class == want || want.is_empty() { "" } else { " (different class than recorded)" };
                    println!("REPRODUCED {} :: {}{}", mclib::engine::mk_key(&violation_key(class, &lit)), f.msg, tag);
                }
                1
            }
        }
    }
}

fn main() {
    let argv: Vec<String> = std::env::args().collect();
    if argv.get(1).map(|s| s.as_str()) == Some("--worker") {
        let tier = if argv.get(2).map(|s| s.as_str()) == Some("thorough") { Tier::Thorough } else { Tier::Quick };
        worker_main(tier);
    }
    install_quiet_panic_hook();
    let (tier, replay_path, _rest) = parse_args();
    if let Some(path) = replay_path {
        std::process::exit(replay(&path, tier));
    }
    let ctx = Ctx::new("C20", tier, tier.pick(150, 870));
    let sc = build_scope(tier);
    let total = Mutex::new(Acc::default());
    let mut rep = ctx.par_range(
        "units(type-list x configuration), each over all seeds",
        sc.units.len() as u64,
        1,
        || ThreadState { child: None, tier },
        |st, u, _rep| {
            let a = run_unit(&sc, st, u as usize);
            total.lock().unwrap().merge(a);
        },
    );
    let mut acc = total.into_inner().unwrap();
    rep.evaluations = acc.cases;
    rep.states = acc.cases;
    rep.transitions = acc.calls;
    rep.traces_validated = acc.cases;
    rep.nontrivial = acc.ok;
    rep.outcomes = std::mem::take(&mut acc.outcomes);
    for (k, v) in &acc.counters {
        rep.count(k, *v);
    }
    rep.count("runs_total", acc.cases);
    rep.count("runs_returning_Ok", acc.ok);
    rep.count("runs_returning_Err", acc.err);
    rep.count("runs_failing_the_oracle", acc.failed);
    rep.count("worker_processes_spawned", CHILD_SPAWNS.load(Ordering::Relaxed));
    for (_, s) in std::mem::take(&mut acc.samples) {
        rep.sample(s);
    }
    rep.notes.extend(sc.notes.clone());
    // one violation per failure class, carried by the smallest input; confirmed in a fresh worker
    let mut classes = vec![];
    for (class, f) in &acc.fails {
        let confirm = run_isolated(tier, &f.min);
        let confirmed = match &confirm {
            Ok(a) => a.fails.contains_key(class),
            Err(_) => false,
        };
        if !confirmed {
            let seen: Vec<String> = confirm.as_ref().map(|a| a.fails.keys().cloned().collect()).unwrap_or_default();
            rep.notes.push(format!("class {class}: re-run of the minimal case did not give the same class (saw {seen:?}, {confirm:?})", confirm = confirm.as_ref().err()));
        }
        let lists: Vec<&String> = f.lists.iter().map(|x| &x.1).collect();
        let cfgs: Vec<&String> = f.configs.iter().map(|x| &x.1).collect();
        let msg = format!(
            "{} [types {} | config {} | seed {}]; {} failing runs in this class; smallest type lists: {:?}; configurations: {:?}{}",
            f.msg,
            f.min.types,
            if f.min.config_name.is_empty() { "?" } else { &f.min.config_name },
            if f.min.seed.is_empty() { "(empty)" } else { &f.min.seed },
            f.count,
            lists,
            cfgs,
            if confirmed { "" } else { " (NOT confirmed on re-run)" }
        );
        rep.violation(
            &violation_key(class, &f.min),
            msg,
            json!({"class": class, "input": f.min, "failing_runs": f.count, "smallest_type_lists": lists, "configurations": cfgs, "confirmed_on_rerun": confirmed}),
        );
        classes.push(json!({"class": class, "failing_runs": f.count, "minimal": f.min}));
    }
    rep.violation_count = acc.failed;
    let machinery = MACHINERY_ERRORS.load(Ordering::Relaxed);
    let maxima: BTreeMap<String, u64> = acc.maxima.clone();
    let code = finish(
        &ctx,
        rep,
        "run = (type environment, argument type list, configuration TOML + scope, entropy bytes); every run executes candid_parser::random::any twice in a worker process on a 8 MiB-stack thread under a 5 s watchdog. Families: A = every type list (arity 0; all depth<=1 types over 11 leaves with opt/vec/record{[],[0],[0,1]}/variant{[],[0],[0,1]}; func/service references; 5 recursive environments as t, opt t, vec t, record{t;t}; 12x12 pairs) x default configuration; B = reduced type lists (36) x every configuration (default, depth/size at root/argument/definition selectors, width, range incl. reversed and full i64, text kinds, value lists matching and mismatching, malformed, scoped tables with 5 scopes); C (thorough) = every type list x every configuration; E = text-bearing lists (text, opt text, vec text, func, record{text;nat8}, (text,text)) x 10 text/width configurations x seeds = one of 3 fixed 8-byte prefixes followed by every enumerated byte string (text draws 8 bytes before anything else, so only these seeds reach the character generators); F = the recursive lists x 12 depth/size configurations (at argument/label, definition and root selectors) x seeds = one of the long prefixes (64 equal bytes of each alphabet byte, 200 x 01, 200 x ff, every periodic sequence of period 2 and 3 over the alphabet, the byte ramp up and down, sixteen fixed dense 256-byte sequences) followed by every byte string of length <= 1 (enough entropy to keep choosing the recursive alternative; the configured limit must still bound the nesting); D = uninhabited/infinitely recursive definitions (t=record{t}, variant{0:t}, vec t, opt t, mutual records, record{nat;t}; as t, opt t, vec t, (nat,t), (t,nat)) x 3 (quick) / 6 (thorough) configurations, each input announced so that a dead worker identifies it. Seeds: ALL byte strings over {00,01,7f,80,ff} up to the family's length. Non-trivial = runs that returned Ok(values) (then clauses a,b,d,e are evaluated); Err runs are checked for determinism only.",
        &[
            "the generator has no source of nondeterminism besides the entropy slice (fake's text kinds are seeded from it)",
            "R1 typing judgement and R2 strict decoder are correct readings of spec/Candid.md",
            "clause (d) is a soft bound (config.md: 'The depth bound is a soft limit'): present-opt/variant nesting <= limit + 1 + acyclic choice depth of the type (the unchanged tree never exceeds max(limit, acyclic depth) in either tier); vectors are not counted (governed by width)",
            "root-level value/range/text/width keys and scoped tables are interpreted only by the implementation; the oracle does not predict which value is chosen, only that it inhabits the type",
        ],
        json!({"scope": sc.summary, "max_value_size_per_configuration": maxima, "failure_classes": classes, "machinery_errors": machinery}),
    );
    if machinery > 0 {
        std::process::exit(2);
    }
    std::process::exit(code);
}
