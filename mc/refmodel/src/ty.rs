//! R1 (types): abstract syntax of Candid types, written from spec/Candid.md "Types".
//! Labels are numeric ids only (the spec identifies a name with its hash); spelling
//! lives outside the model.
use std::collections::BTreeMap;
use std::fmt;

#[derive(Clone, Copy, Debug, PartialEq, Eq, Hash, PartialOrd, Ord)]
pub enum Prim {
    Null,
    Bool,
    Nat,
    Int,
    Nat8,
    Nat16,
    Nat32,
    Nat64,
    Int8,
    Int16,
    Int32,
    Int64,
    Float32,
    Float64,
    Text,
    Reserved,
    Empty,
    Principal,
}

impl Prim {
    pub const ALL: [Prim; 18] = [
        Prim::Null,
        Prim::Bool,
        Prim::Nat,
        Prim::Int,
        Prim::Nat8,
        Prim::Nat16,
        Prim::Nat32,
        Prim::Nat64,
        Prim::Int8,
        Prim::Int16,
        Prim::Int32,
        Prim::Int64,
        Prim::Float32,
        Prim::Float64,
        Prim::Text,
        Prim::Reserved,
        Prim::Empty,
        Prim::Principal,
    ];
    /// Opcode of the spec's `T` function (negative SLEB128 numbers).
    pub fn opcode(self) -> i64 {
        match self {
            Prim::Null => -1,
            Prim::Bool => -2,
            Prim::Nat => -3,
            Prim::Int => -4,
            Prim::Nat8 => -5,
            Prim::Nat16 => -6,
            Prim::Nat32 => -7,
            Prim::Nat64 => -8,
            Prim::Int8 => -9,
            Prim::Int16 => -10,
            Prim::Int32 => -11,
            Prim::Int64 => -12,
            Prim::Float32 => -13,
            Prim::Float64 => -14,
            Prim::Text => -15,
            Prim::Reserved => -16,
            Prim::Empty => -17,
            Prim::Principal => -24,
        }
    }
    pub fn from_opcode(op: i64) -> Option<Prim> {
        Prim::ALL.iter().copied().find(|p| p.opcode() == op)
    }
    pub fn name(self) -> &'static str {
        match self {
            Prim::Null => "null",
            Prim::Bool => "bool",
            Prim::Nat => "nat",
            Prim::Int => "int",
            Prim::Nat8 => "nat8",
            Prim::Nat16 => "nat16",
            Prim::Nat32 => "nat32",
            Prim::Nat64 => "nat64",
            Prim::Int8 => "int8",
            Prim::Int16 => "int16",
            Prim::Int32 => "int32",
            Prim::Int64 => "int64",
            Prim::Float32 => "float32",
            Prim::Float64 => "float64",
            Prim::Text => "text",
            Prim::Reserved => "reserved",
            Prim::Empty => "empty",
            Prim::Principal => "principal",
        }
    }
}

#[derive(Clone, Copy, Debug, PartialEq, Eq, Hash, PartialOrd, Ord)]
pub enum Mode {
    Query,
    Oneway,
    CompositeQuery,
}
impl Mode {
    pub fn code(self) -> u8 {
        match self {
            Mode::Query => 1,
            Mode::Oneway => 2,
            Mode::CompositeQuery => 3,
        }
    }
    pub fn from_code(c: u8) -> Option<Mode> {
        match c {
            1 => Some(Mode::Query),
            2 => Some(Mode::Oneway),
            3 => Some(Mode::CompositeQuery),
            _ => None,
        }
    }
    pub fn name(self) -> &'static str {
        match self {
            Mode::Query => "query",
            Mode::Oneway => "oneway",
            Mode::CompositeQuery => "composite_query",
        }
    }
}

#[derive(Clone, Debug, PartialEq, Eq, Hash, PartialOrd, Ord)]
pub struct FuncTy {
    pub args: Vec<Ty>,
    pub rets: Vec<Ty>,
    pub modes: Vec<Mode>,
}

#[derive(Clone, Debug, PartialEq, Eq, Hash, PartialOrd, Ord)]
pub enum Ty {
    Prim(Prim),
    Var(String),
    Opt(Box<Ty>),
    Vec(Box<Ty>),
    /// fields sorted by id, ids unique
    Record(Vec<(u32, Ty)>),
    /// fields sorted by id, ids unique
    Variant(Vec<(u32, Ty)>),
    Func(FuncTy),
    /// methods sorted by name (byte order), unique
    Service(Vec<(String, Ty)>),
    Class(Vec<Ty>, Box<Ty>),
    /// a type of a future version of Candid (opcode < -24, opaque payload)
    Future(i64, Vec<u8>),
}

pub use Prim as P;

impl Ty {
    pub fn prim(p: Prim) -> Ty {
        Ty::Prim(p)
    }
    pub fn var(s: &str) -> Ty {
        Ty::Var(s.to_string())
    }
    pub fn opt(t: Ty) -> Ty {
        Ty::Opt(Box::new(t))
    }
    pub fn vec(t: Ty) -> Ty {
        Ty::Vec(Box::new(t))
    }
    pub fn record(mut fs: Vec<(u32, Ty)>) -> Ty {
        fs.sort_by_key(|f| f.0);
        Ty::Record(fs)
    }
    pub fn variant(mut fs: Vec<(u32, Ty)>) -> Ty {
        fs.sort_by_key(|f| f.0);
        Ty::Variant(fs)
    }
    pub fn tuple(ts: Vec<Ty>) -> Ty {
        Ty::Record(ts.into_iter().enumerate().map(|(i, t)| (i as u32, t)).collect())
    }
    pub fn func(args: Vec<Ty>, rets: Vec<Ty>, modes: Vec<Mode>) -> Ty {
        Ty::Func(FuncTy { args, rets, modes })
    }
    pub fn service(mut ms: Vec<(String, Ty)>) -> Ty {
        ms.sort_by(|a, b| a.0.as_bytes().cmp(b.0.as_bytes()));
        Ty::Service(ms)
    }
    pub fn is_prim(&self, p: Prim) -> bool {
        matches!(self, Ty::Prim(q) if *q == p)
    }
    /// number of constructor nodes (for reporting / shrinking)
    pub fn size(&self) -> usize {
        match self {
            Ty::Prim(_) | Ty::Var(_) | Ty::Future(..) => 1,
            Ty::Opt(t) | Ty::Vec(t) => 1 + t.size(),
            Ty::Record(fs) | Ty::Variant(fs) => 1 + fs.iter().map(|f| f.1.size()).sum::<usize>(),
            Ty::Func(f) => 1 + f.args.iter().chain(f.rets.iter()).map(|t| t.size()).sum::<usize>(),
            Ty::Service(ms) => 1 + ms.iter().map(|m| m.1.size()).sum::<usize>(),
            Ty::Class(a, t) => 1 + a.iter().map(|t| t.size()).sum::<usize>() + t.size(),
        }
    }
    pub fn children(&self) -> Vec<&Ty> {
        match self {
            Ty::Prim(_) | Ty::Var(_) | Ty::Future(..) => vec![],
            Ty::Opt(t) | Ty::Vec(t) => vec![t],
            Ty::Record(fs) | Ty::Variant(fs) => fs.iter().map(|f| &f.1).collect(),
            Ty::Func(f) => f.args.iter().chain(f.rets.iter()).collect(),
            Ty::Service(ms) => ms.iter().map(|m| &m.1).collect(),
            Ty::Class(a, t) => a.iter().chain(std::iter::once(&**t)).collect(),
        }
    }
    pub fn free_vars(&self, out: &mut Vec<String>) {
        if let Ty::Var(v) = self {
            if !out.contains(v) {
                out.push(v.clone());
            }
        }
        for c in self.children() {
            c.free_vars(out);
        }
    }
    /// rename variables
    pub fn rename(&self, f: &dyn Fn(&str) -> String) -> Ty {
        match self {
            Ty::Prim(_) | Ty::Future(..) => self.clone(),
            Ty::Var(v) => Ty::Var(f(v)),
            Ty::Opt(t) => Ty::opt(t.rename(f)),
            Ty::Vec(t) => Ty::vec(t.rename(f)),
            Ty::Record(fs) => Ty::Record(fs.iter().map(|(i, t)| (*i, t.rename(f))).collect()),
            Ty::Variant(fs) => Ty::Variant(fs.iter().map(|(i, t)| (*i, t.rename(f))).collect()),
            Ty::Func(fu) => Ty::Func(FuncTy {
                args: fu.args.iter().map(|t| t.rename(f)).collect(),
                rets: fu.rets.iter().map(|t| t.rename(f)).collect(),
                modes: fu.modes.clone(),
            }),
            Ty::Service(ms) => Ty::Service(ms.iter().map(|(n, t)| (n.clone(), t.rename(f))).collect()),
            Ty::Class(a, t) => Ty::Class(a.iter().map(|t| t.rename(f)).collect(), Box::new(t.rename(f))),
        }
    }
}

#[derive(Clone, Debug, Default, PartialEq, Eq, Hash, PartialOrd, Ord)]
pub struct Env(pub BTreeMap<String, Ty>);

#[derive(Debug, Clone, PartialEq, Eq)]
pub enum EnvError {
    Unbound(String),
    VacuousCycle(String),
}

impl Env {
    pub fn new() -> Env {
        Env(BTreeMap::new())
    }
    pub fn from(defs: Vec<(&str, Ty)>) -> Env {
        Env(defs.into_iter().map(|(k, v)| (k.to_string(), v)).collect())
    }
    pub fn get(&self, n: &str) -> Option<&Ty> {
        self.0.get(n)
    }
    /// `unf`: follow variables until a non-variable. Errors on unbound names and on
    /// vacuous cycles (`type a = b; type b = a`).
    pub fn unf<'a>(&'a self, t: &'a Ty) -> Result<&'a Ty, EnvError> {
        let mut cur = t;
        let mut steps = 0usize;
        while let Ty::Var(v) = cur {
            cur = self.0.get(v).ok_or_else(|| EnvError::Unbound(v.clone()))?;
            steps += 1;
            if steps > self.0.len() + 1 {
                return Err(EnvError::VacuousCycle(v.clone()));
            }
        }
        Ok(cur)
    }
    /// spec: `null <: t`  <=>  unf(t) in {null, reserved, opt _}
    pub fn nullish(&self, t: &Ty) -> bool {
        matches!(
            self.unf(t),
            Ok(Ty::Prim(Prim::Null)) | Ok(Ty::Prim(Prim::Reserved)) | Ok(Ty::Opt(_))
        )
    }
    /// every variable bound, no vacuous cycle
    pub fn closed(&self) -> Result<(), EnvError> {
        for t in self.0.values() {
            self.closed_ty(t)?;
        }
        Ok(())
    }
    pub fn closed_ty(&self, t: &Ty) -> Result<(), EnvError> {
        if let Ty::Var(_) = t {
            self.unf(t)?;
        }
        for c in t.children() {
            self.closed_ty(c)?;
        }
        Ok(())
    }
    pub fn merge_disjoint(&self, other: &Env) -> Env {
        let mut e = self.clone();
        for (k, v) in &other.0 {
            e.0.insert(k.clone(), v.clone());
        }
        e
    }
    pub fn rename(&self, f: &dyn Fn(&str) -> String) -> Env {
        Env(self.0.iter().map(|(k, v)| (f(k), v.rename(f))).collect())
    }
}

fn pp_fields(f: &mut fmt::Formatter<'_>, fs: &[(u32, Ty)]) -> fmt::Result {
    write!(f, "{{")?;
    for (i, (id, t)) in fs.iter().enumerate() {
        if i > 0 {
            write!(f, ";")?;
        }
        write!(f, " {} : {}", id, t)?;
    }
    write!(f, " }}")
}
fn pp_tys(f: &mut fmt::Formatter<'_>, ts: &[Ty]) -> fmt::Result {
    write!(f, "(")?;
    for (i, t) in ts.iter().enumerate() {
        if i > 0 {
            write!(f, ", ")?;
        }
        write!(f, "{}", t)?;
    }
    write!(f, ")")
}

/// Candid source syntax with numeric field ids; parses back with the real parser.
impl fmt::Display for Ty {
    fn fmt(&self, f: &mut fmt::Formatter<'_>) -> fmt::Result {
        match self {
            Ty::Prim(p) => write!(f, "{}", p.name()),
            Ty::Var(v) => write!(f, "{}", v),
            Ty::Opt(t) => write!(f, "opt {}", t),
            Ty::Vec(t) => write!(f, "vec {}", t),
            Ty::Record(fs) => {
                write!(f, "record ")?;
                pp_fields(f, fs)
            }
            Ty::Variant(fs) => {
                write!(f, "variant ")?;
                pp_fields(f, fs)
            }
            Ty::Func(fu) => {
                write!(f, "func ")?;
                pp_tys(f, &fu.args)?;
                write!(f, " -> ")?;
                pp_tys(f, &fu.rets)?;
                for m in &fu.modes {
                    write!(f, " {}", m.name())?;
                }
                Ok(())
            }
            Ty::Service(ms) => {
                write!(f, "service {{")?;
                for (i, (n, t)) in ms.iter().enumerate() {
                    if i > 0 {
                        write!(f, ";")?;
                    }
                    write!(f, " \"{}\" : ", n.escape_default())?;
                    match t {
                        Ty::Func(fu) => {
                            pp_tys(f, &fu.args)?;
                            write!(f, " -> ")?;
                            pp_tys(f, &fu.rets)?;
                            for m in &fu.modes {
                                write!(f, " {}", m.name())?;
                            }
                        }
                        other => write!(f, "{}", other)?,
                    }
                }
                write!(f, " }}")
            }
            Ty::Class(a, t) => {
                pp_tys(f, a)?;
                write!(f, " -> {}", t)
            }
            Ty::Future(op, b) => write!(f, "future<{};{}>", op, b.len()),
        }
    }
}

impl fmt::Display for Env {
    fn fmt(&self, f: &mut fmt::Formatter<'_>) -> fmt::Result {
        for (k, v) in &self.0 {
            writeln!(f, "type {} = {};", k, v)?;
        }
        Ok(())
    }
}
