//! R3: subtyping and structural equality as greatest fixed points over the finite graph
//! of reachable type pairs (spec "Upgrading and Subtyping > Rules").
use crate::ty::{Env, Prim, Ty};
use std::collections::{HashMap, HashSet};

#[derive(Clone, Copy, Debug, PartialEq, Eq)]
pub enum OptRule {
    /// the spec's rules: every type is a subtype of every option type
    Spec,
    /// without the two "unusual" rules (an upper bound for strict upgrade checking)
    NoSpecialRule,
}

#[derive(Clone, Debug)]
pub struct GfpStats {
    pub holds: bool,
    /// reachable pairs (states)
    pub pairs: usize,
    /// premise edges (transitions)
    pub edges: usize,
    pub iterations: usize,
}

enum Shape {
    Axiom,
    Unrelated,
    Premises(Vec<(Ty, Ty)>),
}

fn tuple(ts: &[Ty]) -> Ty {
    Ty::tuple(ts.to_vec())
}

fn modes_equal(a: &[crate::ty::Mode], b: &[crate::ty::Mode]) -> bool {
    let sa: HashSet<_> = a.iter().collect();
    let sb: HashSet<_> = b.iter().collect();
    sa == sb
}

fn sub_shape(env: &Env, a: &Ty, b: &Ty, rule: OptRule) -> Shape {
    let (ua, ub) = match (env.unf(a), env.unf(b)) {
        (Ok(x), Ok(y)) => (x, y),
        _ => return Shape::Unrelated,
    };
    // constructors are treated first-order: only their service type matters
    if let Ty::Class(_, s) = ua {
        return Shape::Premises(vec![((**s).clone(), b.clone())]);
    }
    if let Ty::Class(_, s) = ub {
        return Shape::Premises(vec![(a.clone(), (**s).clone())]);
    }
    match (ua, ub) {
        (_, Ty::Prim(Prim::Reserved)) => Shape::Axiom,
        (Ty::Prim(Prim::Empty), _) => Shape::Axiom,
        (Ty::Prim(p), Ty::Prim(q)) if p == q => Shape::Axiom,
        (Ty::Prim(Prim::Nat), Ty::Prim(Prim::Int)) => Shape::Axiom,
        (Ty::Service(_), Ty::Prim(Prim::Principal)) => Shape::Axiom,
        (_, Ty::Opt(y)) => match rule {
            OptRule::Spec => Shape::Axiom,
            OptRule::NoSpecialRule => match ua {
                Ty::Prim(Prim::Null) | Ty::Prim(Prim::Reserved) => Shape::Axiom,
                Ty::Opt(x) => Shape::Premises(vec![((**x).clone(), (**y).clone())]),
                _ => Shape::Premises(vec![(a.clone(), (**y).clone())]),
            },
        },
        (Ty::Vec(x), Ty::Vec(y)) => Shape::Premises(vec![((**x).clone(), (**y).clone())]),
        (Ty::Record(f), Ty::Record(g)) => {
            let mut ps = vec![];
            for (l, tg) in g {
                match f.iter().find(|x| x.0 == *l) {
                    Some((_, tf)) => ps.push((tf.clone(), tg.clone())),
                    None => {
                        if !env.nullish(tg) {
                            return Shape::Unrelated;
                        }
                    }
                }
            }
            Shape::Premises(ps)
        }
        (Ty::Variant(f), Ty::Variant(g)) => {
            let mut ps = vec![];
            for (l, tf) in f {
                match g.iter().find(|x| x.0 == *l) {
                    Some((_, tg)) => ps.push((tf.clone(), tg.clone())),
                    None => return Shape::Unrelated,
                }
            }
            Shape::Premises(ps)
        }
        (Ty::Func(f), Ty::Func(g)) => {
            if !modes_equal(&f.modes, &g.modes) {
                return Shape::Unrelated;
            }
            Shape::Premises(vec![
                (tuple(&g.args), tuple(&f.args)),
                (tuple(&f.rets), tuple(&g.rets)),
            ])
        }
        (Ty::Service(m), Ty::Service(n)) => {
            let mut ps = vec![];
            for (name, tn) in n {
                match m.iter().find(|x| x.0 == *name) {
                    Some((_, tm)) => ps.push((tm.clone(), tn.clone())),
                    None => return Shape::Unrelated,
                }
            }
            Shape::Premises(ps)
        }
        (Ty::Future(o1, p1), Ty::Future(o2, p2)) if o1 == o2 && p1 == p2 => Shape::Axiom,
        _ => Shape::Unrelated,
    }
}

fn eq_shape(env: &Env, a: &Ty, b: &Ty) -> Shape {
    let (ua, ub) = match (env.unf(a), env.unf(b)) {
        (Ok(x), Ok(y)) => (x, y),
        _ => return Shape::Unrelated,
    };
    match (ua, ub) {
        (Ty::Prim(p), Ty::Prim(q)) => {
            if p == q {
                Shape::Axiom
            } else {
                Shape::Unrelated
            }
        }
        (Ty::Opt(x), Ty::Opt(y)) | (Ty::Vec(x), Ty::Vec(y)) => {
            Shape::Premises(vec![((**x).clone(), (**y).clone())])
        }
        (Ty::Record(f), Ty::Record(g)) | (Ty::Variant(f), Ty::Variant(g)) => {
            if f.len() != g.len() || f.iter().zip(g).any(|(x, y)| x.0 != y.0) {
                return Shape::Unrelated;
            }
            Shape::Premises(f.iter().zip(g).map(|(x, y)| (x.1.clone(), y.1.clone())).collect())
        }
        (Ty::Func(f), Ty::Func(g)) => {
            if !modes_equal(&f.modes, &g.modes) {
                return Shape::Unrelated;
            }
            Shape::Premises(vec![(tuple(&f.args), tuple(&g.args)), (tuple(&f.rets), tuple(&g.rets))])
        }
        (Ty::Service(m), Ty::Service(n)) => {
            if m.len() != n.len() || m.iter().zip(n).any(|(x, y)| x.0 != y.0) {
                return Shape::Unrelated;
            }
            Shape::Premises(m.iter().zip(n).map(|(x, y)| (x.1.clone(), y.1.clone())).collect())
        }
        (Ty::Class(a1, s1), Ty::Class(a2, s2)) => {
            Shape::Premises(vec![(tuple(a1), tuple(a2)), ((**s1).clone(), (**s2).clone())])
        }
        (Ty::Future(o1, p1), Ty::Future(o2, p2)) if o1 == o2 && p1 == p2 => Shape::Axiom,
        _ => Shape::Unrelated,
    }
}

fn gfp(start: (Ty, Ty), shape: &dyn Fn(&Ty, &Ty) -> Shape) -> GfpStats {
    // 1. reachable pairs
    let mut idx: HashMap<(Ty, Ty), usize> = HashMap::new();
    let mut succ: Vec<Option<Vec<usize>>> = vec![]; // None = unrelated
    let mut work = vec![start.clone()];
    idx.insert(start, 0);
    succ.push(Some(vec![]));
    let mut order: Vec<(Ty, Ty)> = vec![];
    order.push(work[0].clone());
    let mut edges = 0usize;
    while let Some(p) = work.pop() {
        let i = idx[&p];
        match shape(&p.0, &p.1) {
            Shape::Axiom => succ[i] = Some(vec![]),
            Shape::Unrelated => succ[i] = None,
            Shape::Premises(ps) => {
                let mut v = vec![];
                for q in ps {
                    let j = match idx.get(&q) {
                        Some(j) => *j,
                        None => {
                            let j = succ.len();
                            idx.insert(q.clone(), j);
                            succ.push(Some(vec![]));
                            work.push(q);
                            j
                        }
                    };
                    v.push(j);
                }
                edges += v.len();
                succ[i] = Some(v);
            }
        }
    }
    // 2. iterate downwards from "all related"
    let n = succ.len();
    let mut rel: Vec<bool> = succ.iter().map(|s| s.is_some()).collect();
    let mut iterations = 0;
    loop {
        iterations += 1;
        let mut changed = false;
        for i in 0..n {
            if rel[i] {
                if let Some(s) = &succ[i] {
                    if s.iter().any(|j| !rel[*j]) {
                        rel[i] = false;
                        changed = true;
                    }
                }
            }
        }
        if !changed {
            break;
        }
    }
    GfpStats { holds: rel[0], pairs: n, edges, iterations }
}

/// `s <: t` in environment `env` (both sides resolved in the same environment).
pub fn subtype_stats(env: &Env, s: &Ty, t: &Ty, rule: OptRule) -> GfpStats {
    gfp((s.clone(), t.clone()), &|a, b| sub_shape(env, a, b, rule))
}
pub fn subtype(env: &Env, s: &Ty, t: &Ty) -> bool {
    subtype_stats(env, s, t, OptRule::Spec).holds
}
pub fn subtype_strict(env: &Env, s: &Ty, t: &Ty) -> bool {
    subtype_stats(env, s, t, OptRule::NoSpecialRule).holds
}
/// structural equality (bisimilarity of the unfolded regular trees)
pub fn equal_stats(env: &Env, s: &Ty, t: &Ty) -> GfpStats {
    gfp((s.clone(), t.clone()), &|a, b| eq_shape(env, a, b))
}
pub fn equal(env: &Env, s: &Ty, t: &Ty) -> bool {
    equal_stats(env, s, t).holds
}

#[cfg(test)]
mod tests {
    use super::*;
    use crate::ty::P;
    #[test]
    fn basics() {
        let e = Env::new();
        assert!(subtype(&e, &Ty::prim(P::Nat), &Ty::prim(P::Int)));
        assert!(!subtype(&e, &Ty::prim(P::Int), &Ty::prim(P::Nat)));
        assert!(subtype(&e, &Ty::prim(P::Text), &Ty::opt(Ty::prim(P::Nat))));
        assert!(subtype(&e, &Ty::record(vec![(1, Ty::prim(P::Nat))]), &Ty::record(vec![])));
        assert!(subtype(
            &e,
            &Ty::record(vec![]),
            &Ty::record(vec![(1, Ty::opt(Ty::prim(P::Nat)))])
        ));
        assert!(!subtype(&e, &Ty::record(vec![]), &Ty::record(vec![(1, Ty::prim(P::Nat))])));
        assert!(subtype(&e, &Ty::variant(vec![]), &Ty::variant(vec![(1, Ty::prim(P::Nat))])));
        assert!(!subtype(&e, &Ty::variant(vec![(1, Ty::prim(P::Nat))]), &Ty::variant(vec![])));
    }
    #[test]
    fn stale_assumption_case() {
        // A = record {b : B; x : nat}  A' = record {b : B'; x : text}
        // B = record {a : vec A}       B' = record {a : vec A'}
        let e = Env::from(vec![
            ("A", Ty::record(vec![(0, Ty::var("B")), (1, Ty::prim(P::Nat))])),
            ("B", Ty::record(vec![(0, Ty::vec(Ty::var("A")))])),
            ("A2", Ty::record(vec![(0, Ty::var("B2")), (1, Ty::prim(P::Text))])),
            ("B2", Ty::record(vec![(0, Ty::vec(Ty::var("A2")))])),
        ]);
        assert!(!subtype(&e, &Ty::var("B"), &Ty::var("B2")));
        let q1 = Ty::record(vec![(0, Ty::opt(Ty::var("A"))), (1, Ty::var("B"))]);
        let q2 = Ty::record(vec![(0, Ty::opt(Ty::var("A2"))), (1, Ty::var("B2"))]);
        assert!(!subtype(&e, &q1, &q2));
    }
    #[test]
    fn recursive_equal() {
        let e = Env::from(vec![
            ("L", Ty::opt(Ty::record(vec![(0, Ty::prim(P::Nat)), (1, Ty::var("L"))]))),
            (
                "M",
                Ty::opt(Ty::record(vec![
                    (0, Ty::prim(P::Nat)),
                    (1, Ty::opt(Ty::record(vec![(0, Ty::prim(P::Nat)), (1, Ty::var("M"))]))),
                ])),
            ),
        ]);
        assert!(equal(&e, &Ty::var("L"), &Ty::var("M")));
        assert!(subtype(&e, &Ty::var("L"), &Ty::var("M")));
    }
}
