//! R5: the decoding-cost model documented with `DecoderConfig::set_decoding_quota`:
//! cost of a message = 4 x header bytes + sum of C(v : t); values that are skipped
//! (surplus arguments and fields, option contents that do not coerce) are charged 50x.
use crate::leb;
use crate::sub;
use crate::ty::{Env, Prim, Ty};
use crate::val::Val;

#[derive(Clone, Copy, Debug, Default, PartialEq)]
pub struct Cost {
    /// documented decoding cost (with the 50x penalty on skipped values)
    pub decoding: u64,
    /// documented cost of the skipped values without the penalty (skipping quota)
    pub skipping: u64,
    /// value nodes visited (materialised or skipped)
    pub nodes: u64,
    pub skipped_nodes: u64,
}

impl Cost {
    fn add(&mut self, o: Cost) {
        self.decoding += o.decoding;
        self.skipping += o.skipping;
        self.nodes += o.nodes;
        self.skipped_nodes += o.skipped_nodes;
    }
}

/// `C(v : t)` for a value that is fully skipped or fully materialised.
/// `table_len`: number of entries of the message's type table (term of reference types).
pub fn plain(env: &Env, v: &Val, t: &Ty, table_len: u64) -> u64 {
    let t = match env.unf(t) {
        Ok(t) => t,
        Err(_) => return 0,
    };
    match (v, t) {
        (Val::Nat(n), _) => leb::enc_u(n).len() as u64,
        (Val::Int(i), _) => leb::enc_s(i).len() as u64,
        (Val::NatN(b, _), _) | (Val::IntN(b, _), _) => (*b / 8) as u64,
        (Val::F32(_), _) => 4,
        (Val::F64(_), _) => 8,
        (Val::Bool(_), _) => 1,
        (Val::Text(s), _) => 1 + s.len() as u64,
        (Val::Null, _) | (Val::Reserved, _) => 1,
        (Val::Opt(None), _) => 2,
        (Val::Opt(Some(x)), Ty::Opt(tx)) => 2 + plain(env, x, tx, table_len),
        (Val::Vec(xs), Ty::Vec(tx)) => 2 + 3 * xs.len() as u64 + xs.iter().map(|x| plain(env, x, tx, table_len)).sum::<u64>(),
        (Val::Record(fs), Ty::Record(ts)) => {
            2 + fs.iter().zip(ts).map(|((_, x), (_, tx))| 7 + 4 + plain(env, x, tx, table_len)).sum::<u64>()
        }
        (Val::Variant(l, x), Ty::Variant(ts)) => {
            let tx = ts.iter().find(|f| f.0 == *l).map(|f| &f.1);
            2 + 5 + 4 + tx.map(|tx| plain(env, x, tx, table_len)).unwrap_or(0)
        }
        (Val::Principal(p), _) => (p.len() as u64).max(30),
        (Val::Service(p), _) => 2 + (p.len() as u64).max(30) + table_len,
        (Val::Func(p, m), _) => 2 + (p.len() as u64).max(30) + 1 + m.len() as u64 + table_len,
        _ => 1,
    }
}

/// Cost of decoding `v : t` at expected type `t2` following the coercion: parts that are
/// dropped are charged as skipped. `untyped`: everything is accounted like skipped work
/// (decoding to the untyped value type).
pub fn at(env: &Env, v: &Val, t: &Ty, t2: &Ty, table_len: u64, untyped: bool) -> Cost {
    let mut c = Cost::default();
    let skipped = |c: &mut Cost, v: &Val, t: &Ty| {
        let p = plain(env, v, t, table_len);
        c.decoding += 50 * p;
        c.skipping += p;
        c.nodes += v.nodes();
        c.skipped_nodes += v.nodes();
    };
    let (a, b) = match (env.unf(t), env.unf(t2)) {
        (Ok(a), Ok(b)) => (a, b),
        _ => return c,
    };
    let mult = if untyped { 50 } else { 1 };
    let own = |c: &mut Cost, n: u64| {
        c.decoding += mult * n;
        if untyped {
            c.skipping += n;
        }
        c.nodes += 1;
    };
    match (b, a, v) {
        (Ty::Prim(Prim::Reserved), _, _) => {
            // reading at `reserved` ignores the wire value: it is skipped data
            skipped(&mut c, v, t);
            own(&mut c, 1);
        }
        (Ty::Opt(y), _, _) => match (a, v) {
            (Ty::Prim(Prim::Null), _) | (Ty::Prim(Prim::Reserved), _) | (_, Val::Opt(None)) => own(&mut c, 2),
            (Ty::Opt(x), Val::Opt(Some(w))) => {
                own(&mut c, 2);
                if crate::coerce::coerce(env, w, x, y).is_some() {
                    c.add(at(env, w, x, y, table_len, untyped));
                } else {
                    skipped(&mut c, w, x);
                }
            }
            _ => {
                own(&mut c, 2);
                if crate::coerce::coerce(env, v, t, y).is_some() {
                    c.add(at(env, v, t, y, table_len, untyped));
                } else {
                    skipped(&mut c, v, t);
                }
            }
        },
        (Ty::Vec(y), Ty::Vec(x), Val::Vec(xs)) => {
            own(&mut c, 2 + 3 * xs.len() as u64);
            for w in xs {
                c.add(at(env, w, x, y, table_len, untyped));
            }
        }
        (Ty::Record(g), Ty::Record(f), Val::Record(vs)) => {
            own(&mut c, 2);
            for ((l, w), (_, tf)) in vs.iter().zip(f) {
                match g.iter().find(|x| x.0 == *l) {
                    Some((_, tg)) => {
                        c.decoding += mult * 11;
                        if untyped {
                            c.skipping += 11;
                        }
                        c.add(at(env, w, tf, tg, table_len, untyped));
                    }
                    None => {
                        c.decoding += 50 * 11;
                        c.skipping += 11;
                        skipped(&mut c, w, tf);
                    }
                }
            }
            for (l, _) in g {
                if !f.iter().any(|x| x.0 == *l) {
                    // missing field reads as null
                    own(&mut c, 11 + 2);
                }
            }
        }
        (Ty::Variant(g), Ty::Variant(f), Val::Variant(l, w)) => {
            own(&mut c, 2 + 9);
            if let (Some((_, tf)), Some((_, tg))) = (f.iter().find(|x| x.0 == *l), g.iter().find(|x| x.0 == *l)) {
                c.add(at(env, w, tf, tg, table_len, untyped));
            }
        }
        (Ty::Func(_), _, _) | (Ty::Service(_), _, _) => {
            let _ = sub::subtype(env, t, t2);
            own(&mut c, plain(env, v, t, table_len));
        }
        _ => own(&mut c, plain(env, v, t, table_len)),
    }
    c
}

/// whole message: header term + arguments (surplus arguments skipped, missing ones read as null)
pub fn message(env: &Env, header_len: u64, vals: &[Val], tys: &[Ty], etys: &[Ty], table_len: u64, untyped: bool) -> Cost {
    let mut c = Cost { decoding: 4 * header_len, ..Default::default() };
    for (i, (v, t)) in vals.iter().zip(tys).enumerate() {
        match etys.get(i) {
            Some(t2) => c.add(at(env, v, t, t2, table_len, untyped)),
            None => c.add(at(env, v, t, &Ty::Prim(Prim::Reserved), table_len, untyped)),
        }
    }
    for _ in vals.len()..etys.len() {
        // a missing argument reads as null
        c.decoding += if untyped { 100 } else { 2 };
        c.nodes += 1;
    }
    c
}
