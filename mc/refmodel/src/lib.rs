//! Reference models R1-R8 for the Candid properties: plain Rust written from
//! spec/Candid.md, with no dependency on the implementation under check.
pub mod coerce;
pub mod cost;
pub mod gen;
pub mod hash;
pub mod leb;
pub mod sub;
pub mod ty;
pub mod val;
pub mod wire;
