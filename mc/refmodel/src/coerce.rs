//! R4: the coercion relation `v : t ~> v' : t'` of spec/Candid.md "Coercion", as a
//! partial function by recursion on the value.
use crate::sub;
use crate::ty::{Env, Prim, Ty};
use crate::val::Val;
use num_bigint::BigInt;

thread_local! {
    static CHAIN: std::cell::Cell<usize> = const { std::cell::Cell::new(0) };
    static DIVERGED: std::cell::Cell<bool> = const { std::cell::Cell::new(false) };
}

/// True if a coercion on this thread met an expected type whose option nesting never ends
/// (`type O = opt O`) since the last call; resets the flag. The result computed in that case
/// is not a verdict of the specification.
pub fn diverged() -> bool {
    DIVERGED.with(|d| d.replace(false))
}

/// `env` resolves both the actual (wire) type `t` and the expected type `t2`.
/// Returns `None` when no `v'` exists.
pub fn coerce(env: &Env, v: &Val, t: &Ty, t2: &Ty) -> Option<Val> {
    let a = env.unf(t).ok()?;
    let b = env.unf(t2).ok()?;
    match b {
        // _ : t ~> null : reserved
        Ty::Prim(Prim::Reserved) => Some(Val::Reserved),
        Ty::Opt(y) => Some(match a {
            // null <: t  (t = null or reserved)  =>  null : opt t'
            Ty::Prim(Prim::Null) | Ty::Prim(Prim::Reserved) => Val::Opt(None),
            Ty::Opt(x) => match v {
                Val::Opt(None) => Val::Opt(None),
                Val::Opt(Some(w)) => match coerce(env, w, x, y) {
                    Some(w2) => Val::some(w2),
                    None => Val::Opt(None),
                },
                _ => return None, // ill-typed input
            },
            // not (null <: t): constituent rule, else null.
            // The constituent rule recurses on the *same* value at the content type; at an expected
            // type like `type O = opt O` it never reaches a premise that decides (the spec's rules,
            // with their negative premise, give no verdict there; the spec's test data expects
            // failure). Such a chain is cut and reported through `diverged()`.
            _ => {
                let depth = CHAIN.with(|c| {
                    let d = c.get() + 1;
                    c.set(d);
                    d
                });
                let r = if depth > env.0.len() + 64 {
                    DIVERGED.with(|d| d.set(true));
                    None
                } else {
                    coerce(env, v, t, y)
                };
                CHAIN.with(|c| c.set(c.get() - 1));
                match r {
                    Some(w2) => Val::some(w2),
                    None => Val::Opt(None),
                }
            }
        }),
        Ty::Prim(q) => match (a, q, v) {
            (Ty::Prim(Prim::Nat), Prim::Int, Val::Nat(n)) => Some(Val::Int(BigInt::from(n.clone()))),
            (Ty::Service(_), Prim::Principal, Val::Service(p)) => Some(Val::Principal(p.clone())),
            (_, Prim::Empty, _) => None,
            (Ty::Prim(p), q, v) if p == q => Some(v.clone()),
            _ => None,
        },
        Ty::Vec(y) => match (a, v) {
            (Ty::Vec(x), Val::Vec(vs)) => {
                let mut out = Vec::with_capacity(vs.len());
                for w in vs {
                    out.push(coerce(env, w, x, y)?);
                }
                Some(Val::Vec(out))
            }
            _ => None,
        },
        Ty::Record(g) => match (a, v) {
            (Ty::Record(f), Val::Record(vs)) => {
                let mut out = vec![];
                for (l, tg) in g {
                    match f.iter().position(|x| x.0 == *l) {
                        Some(k) => {
                            let (lv, w) = vs.get(k)?;
                            if lv != l {
                                return None;
                            }
                            out.push((*l, coerce(env, w, &f[k].1, tg)?));
                        }
                        None => {
                            // field only in the expected type: null <: t3, value null
                            match env.unf(tg).ok()? {
                                Ty::Prim(Prim::Null) => out.push((*l, Val::Null)),
                                Ty::Prim(Prim::Reserved) => out.push((*l, Val::Reserved)),
                                Ty::Opt(_) => out.push((*l, Val::Opt(None))),
                                _ => return None,
                            }
                        }
                    }
                }
                Some(Val::Record(out))
            }
            _ => None,
        },
        Ty::Variant(g) => match (a, v) {
            (Ty::Variant(f), Val::Variant(l, w)) => {
                let tf = &f.iter().find(|x| x.0 == *l)?.1;
                let tg = &g.iter().find(|x| x.0 == *l)?.1;
                Some(Val::Variant(*l, Box::new(coerce(env, w, tf, tg)?)))
            }
            _ => None,
        },
        Ty::Func(_) => match (a, v) {
            (Ty::Func(_), Val::Func(..)) if sub::subtype(env, t, t2) => Some(v.clone()),
            _ => None,
        },
        Ty::Service(_) => match (a, v) {
            (Ty::Service(_), Val::Service(_)) if sub::subtype(env, t, t2) => Some(v.clone()),
            _ => None,
        },
        Ty::Future(..) | Ty::Class(..) | Ty::Var(_) => None,
    }
}

/// Argument / result sequences coerce as tuple-like records: surplus values are dropped,
/// missing ones must be of null, optional or reserved type and read as null.
pub fn coerce_args(env: &Env, vs: &[Val], ts: &[Ty], t2s: &[Ty]) -> Option<Vec<Val>> {
    if vs.len() != ts.len() {
        return None;
    }
    let v = Val::tuple(vs.to_vec());
    let t = Ty::tuple(ts.to_vec());
    let t2 = Ty::tuple(t2s.to_vec());
    match coerce(env, &v, &t, &t2)? {
        Val::Record(fs) => Some(fs.into_iter().map(|f| f.1).collect()),
        _ => None,
    }
}

#[cfg(test)]
mod tests {
    use super::*;
    use crate::ty::P;
    #[test]
    fn opt_rules() {
        let e = Env::new();
        let nat = Ty::prim(P::Nat);
        let text = Ty::prim(P::Text);
        // constituent rule
        assert_eq!(coerce(&e, &Val::nat(5), &nat, &Ty::opt(nat.clone())), Some(Val::some(Val::nat(5))));
        // mismatch under opt goes to null
        assert_eq!(coerce(&e, &Val::nat(5), &nat, &Ty::opt(text.clone())), Some(Val::none()));
        // nested
        assert_eq!(
            coerce(&e, &Val::nat(5), &nat, &Ty::opt(Ty::opt(nat.clone()))),
            Some(Val::some(Val::some(Val::nat(5))))
        );
        // opt nat at opt opt nat: opt/opt rule then constituent
        assert_eq!(
            coerce(&e, &Val::some(Val::nat(5)), &Ty::opt(nat.clone()), &Ty::opt(Ty::opt(nat.clone()))),
            Some(Val::some(Val::some(Val::nat(5))))
        );
        assert_eq!(
            coerce(&e, &Val::none(), &Ty::opt(nat.clone()), &Ty::opt(Ty::opt(nat.clone()))),
            Some(Val::none())
        );
        // reserved at opt
        assert_eq!(coerce(&e, &Val::Reserved, &Ty::prim(P::Reserved), &Ty::opt(nat.clone())), Some(Val::none()));
        // not under opt: fails
        assert_eq!(coerce(&e, &Val::nat(5), &nat, &text), None);
        // nat at int
        assert_eq!(coerce(&e, &Val::nat(5), &nat, &Ty::prim(P::Int)), Some(Val::int(5)));
        // missing args
        assert_eq!(
            coerce_args(&e, &[], &[], &[Ty::opt(nat.clone()), Ty::prim(P::Null)]),
            Some(vec![Val::none(), Val::Null])
        );
        assert_eq!(coerce_args(&e, &[], &[], &[nat.clone()]), None);
        assert_eq!(coerce_args(&e, &[Val::nat(1)], &[nat.clone()], &[]), Some(vec![]));
    }
}
