//! R2: the binary format of spec/Candid.md ("Binary Format", "Deserialisation",
//! "Deserialisation of future types") as an encoder and as a strict, total decoder.
use crate::leb;
use crate::ty::{Env, FuncTy, Mode, Prim, Ty};
use crate::val::Val;
use num_bigint::{BigInt, BigUint};
use std::collections::HashMap;

/// `I(t)`: negative = primitive opcode, non-negative = index into the table.
pub type Ref = i64;

#[derive(Clone, Debug, PartialEq, Eq, Hash, PartialOrd, Ord)]
pub enum Entry {
    Opt(Ref),
    Vec(Ref),
    Record(Vec<(u64, Ref)>),
    Variant(Vec<(u64, Ref)>),
    Func { args: Vec<Ref>, rets: Vec<Ref>, modes: Vec<u8> },
    Service(Vec<(Vec<u8>, Ref)>),
    Future { op: i64, payload: Vec<u8> },
    /// arbitrary bytes (hostile tables only; never produced by the encoder)
    Raw(Vec<u8>),
}

#[derive(Clone, Debug, PartialEq, Eq, Hash, Default)]
pub struct Header {
    pub table: Vec<Entry>,
    pub args: Vec<Ref>,
}

fn put_refs(out: &mut Vec<u8>, rs: &[Ref]) {
    out.extend(leb::enc_u64(rs.len() as u64));
    for r in rs {
        out.extend(leb::enc_i64(*r));
    }
}

impl Entry {
    pub fn to_bytes(&self, out: &mut Vec<u8>) {
        match self {
            Entry::Opt(r) => {
                out.extend(leb::enc_i64(-18));
                out.extend(leb::enc_i64(*r));
            }
            Entry::Vec(r) => {
                out.extend(leb::enc_i64(-19));
                out.extend(leb::enc_i64(*r));
            }
            Entry::Record(fs) | Entry::Variant(fs) => {
                out.extend(leb::enc_i64(if matches!(self, Entry::Record(_)) { -20 } else { -21 }));
                out.extend(leb::enc_u64(fs.len() as u64));
                for (id, r) in fs {
                    out.extend(leb::enc_u64(*id));
                    out.extend(leb::enc_i64(*r));
                }
            }
            Entry::Func { args, rets, modes } => {
                out.extend(leb::enc_i64(-22));
                put_refs(out, args);
                put_refs(out, rets);
                out.extend(leb::enc_u64(modes.len() as u64));
                out.extend(modes.iter());
            }
            Entry::Service(ms) => {
                out.extend(leb::enc_i64(-23));
                out.extend(leb::enc_u64(ms.len() as u64));
                for (n, r) in ms {
                    out.extend(leb::enc_u64(n.len() as u64));
                    out.extend(n.iter());
                    out.extend(leb::enc_i64(*r));
                }
            }
            Entry::Future { op, payload } => {
                out.extend(leb::enc_i64(*op));
                out.extend(leb::enc_u64(payload.len() as u64));
                out.extend(payload.iter());
            }
            Entry::Raw(b) => out.extend(b.iter()),
        }
    }
    pub fn refs_mut(&mut self) -> Vec<&mut Ref> {
        match self {
            Entry::Opt(r) | Entry::Vec(r) => vec![r],
            Entry::Record(fs) | Entry::Variant(fs) => fs.iter_mut().map(|f| &mut f.1).collect(),
            Entry::Func { args, rets, .. } => args.iter_mut().chain(rets.iter_mut()).collect(),
            Entry::Service(ms) => ms.iter_mut().map(|m| &mut m.1).collect(),
            Entry::Future { .. } | Entry::Raw(_) => vec![],
        }
    }
}

impl Header {
    /// `DIDL` T*(table) I*(args)
    pub fn to_bytes(&self) -> Vec<u8> {
        let mut out = b"DIDL".to_vec();
        out.extend(leb::enc_u64(self.table.len() as u64));
        for e in &self.table {
            e.to_bytes(&mut out);
        }
        put_refs(&mut out, &self.args);
        out
    }
    /// Re-order the table: entry i moves to position perm[i]; meaning preserved.
    pub fn permute(&self, perm: &[usize]) -> Header {
        let n = self.table.len();
        assert_eq!(perm.len(), n);
        let mut table = vec![Entry::Raw(vec![]); n];
        let remap = |r: &mut Ref| {
            if *r >= 0 && (*r as usize) < n {
                *r = perm[*r as usize] as i64;
            }
        };
        for (i, e) in self.table.iter().enumerate() {
            let mut e = e.clone();
            for r in e.refs_mut() {
                remap(r);
            }
            table[perm[i]] = e;
        }
        let mut args = self.args.clone();
        for r in args.iter_mut() {
            remap(r);
        }
        Header { table, args }
    }
    /// Append an (unreferenced) entry; meaning preserved.
    pub fn with_unused(&self, e: Entry) -> Header {
        let mut h = self.clone();
        h.table.push(e);
        h
    }
    /// Duplicate entry `i` and redirect the argument references (only) to the copy.
    pub fn with_duplicate(&self, i: usize) -> Header {
        let mut h = self.clone();
        let n = h.table.len() as i64;
        h.table.push(h.table[i].clone());
        for r in h.args.iter_mut() {
            if *r == i as i64 {
                *r = n;
            }
        }
        h
    }
}

#[derive(Clone, Debug, PartialEq, Eq)]
pub enum WireErr {
    /// input ended early
    Eof,
    BadMagic,
    /// table violates the grammar or a side condition of the spec
    Table(String),
    /// value bytes violate the grammar
    Value(String),
    Trailing,
    /// outside the documented limits given as parameters
    Limit(String),
    /// the model's own exploration budget (not a verdict about the input)
    Budget,
}

#[derive(Clone, Debug)]
pub struct Limits {
    pub max_table_len: u64,
    pub max_principal: usize,
    /// model budget on value nodes
    pub max_nodes: u64,
    pub max_depth: usize,
}
impl Default for Limits {
    fn default() -> Self {
        Limits { max_table_len: 10_000, max_principal: 29, max_nodes: 2_000_000, max_depth: 3000 }
    }
}

pub struct Rd<'a> {
    pub b: &'a [u8],
    pub pos: usize,
}
impl<'a> Rd<'a> {
    pub fn new(b: &'a [u8]) -> Self {
        Rd { b, pos: 0 }
    }
    fn u8(&mut self) -> Result<u8, WireErr> {
        let x = *self.b.get(self.pos).ok_or(WireErr::Eof)?;
        self.pos += 1;
        Ok(x)
    }
    fn take(&mut self, n: u64) -> Result<&'a [u8], WireErr> {
        let rest = (self.b.len() - self.pos) as u64;
        if n > rest {
            return Err(WireErr::Eof);
        }
        let s = &self.b[self.pos..self.pos + n as usize];
        self.pos += n as usize;
        Ok(s)
    }
    pub fn leb(&mut self) -> Result<BigUint, WireErr> {
        let (v, n) = leb::dec_u(&self.b[self.pos..]).map_err(|_| WireErr::Eof)?;
        self.pos += n;
        Ok(v)
    }
    pub fn sleb(&mut self) -> Result<BigInt, WireErr> {
        let (v, n) = leb::dec_s(&self.b[self.pos..]).map_err(|_| WireErr::Eof)?;
        self.pos += n;
        Ok(v)
    }
    fn leb_u64(&mut self, what: &str) -> Result<u64, WireErr> {
        let v = self.leb()?;
        u64::try_from(&v).map_err(|_| WireErr::Limit(format!("{what} exceeds 64 bits")))
    }
    fn sleb_i64(&mut self, what: &str) -> Result<i64, WireErr> {
        let v = self.sleb()?;
        i64::try_from(&v).map_err(|_| WireErr::Limit(format!("{what} exceeds 64 bits")))
    }
}

fn is_prim_op(r: i64) -> bool {
    (-17..=-1).contains(&r) || r == -24
}

/// Parse `DIDL T*(<comptype>*) I*(<datatype>*)`; returns header and bytes consumed.
/// Purely syntactic; `validate` checks the side conditions.
pub fn parse_header(b: &[u8], lim: &Limits) -> Result<(Header, usize), WireErr> {
    if b.len() < 4 {
        return Err(if b"DIDL".starts_with(b) { WireErr::Eof } else { WireErr::BadMagic });
    }
    if &b[..4] != b"DIDL" {
        return Err(WireErr::BadMagic);
    }
    let mut rd = Rd { b, pos: 4 };
    let n = rd.leb_u64("table length")?;
    if n > lim.max_table_len {
        return Err(WireErr::Limit("type table size".into()));
    }
    let mut table = Vec::new();
    for _ in 0..n {
        let op = rd.sleb_i64("opcode")?;
        let e = match op {
            -18 => Entry::Opt(rd.sleb_i64("ref")?),
            -19 => Entry::Vec(rd.sleb_i64("ref")?),
            -20 | -21 => {
                let k = rd.leb_u64("field count")?;
                let mut fs = Vec::new();
                for _ in 0..k {
                    let id = rd.leb_u64("field id")?;
                    let r = rd.sleb_i64("ref")?;
                    fs.push((id, r));
                }
                if op == -20 {
                    Entry::Record(fs)
                } else {
                    Entry::Variant(fs)
                }
            }
            -22 => {
                let mut parts: Vec<Vec<Ref>> = vec![];
                for _ in 0..2 {
                    let k = rd.leb_u64("arity")?;
                    let mut rs = Vec::new();
                    for _ in 0..k {
                        rs.push(rd.sleb_i64("ref")?);
                    }
                    parts.push(rs);
                }
                let k = rd.leb_u64("annotation count")?;
                let mut modes = Vec::new();
                for _ in 0..k {
                    modes.push(rd.u8()?);
                }
                let rets = parts.pop().unwrap();
                let args = parts.pop().unwrap();
                Entry::Func { args, rets, modes }
            }
            -23 => {
                let k = rd.leb_u64("method count")?;
                let mut ms = Vec::new();
                for _ in 0..k {
                    let l = rd.leb_u64("name length")?;
                    let name = rd.take(l)?.to_vec();
                    let r = rd.sleb_i64("ref")?;
                    ms.push((name, r));
                }
                Entry::Service(ms)
            }
            op if op < -24 => {
                let l = rd.leb_u64("future type length")?;
                let payload = rd.take(l)?.to_vec();
                Entry::Future { op, payload }
            }
            op => {
                return Err(WireErr::Table(format!(
                    "table entry with opcode {op}: the type table may only contain composite types"
                )))
            }
        };
        table.push(e);
    }
    let k = rd.leb_u64("argument count")?;
    let mut args = Vec::new();
    for _ in 0..k {
        args.push(rd.sleb_i64("ref")?);
    }
    Ok((Header { table, args }, rd.pos))
}

pub fn table_name(i: usize) -> String {
    format!("table{i}")
}

/// Side conditions of the spec on a parsed header, and conversion to an environment
/// (`table<i>` names) plus the argument types.
pub fn header_types(h: &Header) -> Result<(Env, Vec<Ty>), WireErr> {
    let n = h.table.len() as i64;
    let rf = |r: Ref| -> Result<Ty, WireErr> {
        if r >= 0 {
            if r >= n {
                return Err(WireErr::Table(format!("type index {r} out of range")));
            }
            Ok(Ty::Var(table_name(r as usize)))
        } else if is_prim_op(r) {
            Ok(Ty::Prim(Prim::from_opcode(r).unwrap()))
        } else {
            Err(WireErr::Table(format!("unknown opcode {r} in type reference")))
        }
    };
    let fields = |fs: &[(u64, Ref)]| -> Result<Vec<(u32, Ty)>, WireErr> {
        let mut out = Vec::new();
        let mut prev: Option<u64> = None;
        for (id, r) in fs {
            if *id > u32::MAX as u64 {
                return Err(WireErr::Table(format!("field id {id} out of 32-bit range")));
            }
            if let Some(p) = prev {
                if p >= *id {
                    return Err(WireErr::Table(format!("field id {id} duplicate or not ascending")));
                }
            }
            prev = Some(*id);
            out.push((*id as u32, rf(*r)?));
        }
        Ok(out)
    };
    let mut env = Env::new();
    for (i, e) in h.table.iter().enumerate() {
        let t = match e {
            Entry::Opt(r) => Ty::opt(rf(*r)?),
            Entry::Vec(r) => Ty::vec(rf(*r)?),
            Entry::Record(fs) => Ty::Record(fields(fs)?),
            Entry::Variant(fs) => Ty::Variant(fields(fs)?),
            Entry::Func { args, rets, modes } => {
                let mut ms = Vec::new();
                for m in modes {
                    ms.push(Mode::from_code(*m).ok_or_else(|| WireErr::Table(format!("unknown annotation {m}")))?);
                }
                // spec "Functions": at most one of the annotations; a repeated one is not a set
                if ms.len() > 1 {
                    return Err(WireErr::Table("more than one function annotation".into()));
                }
                Ty::Func(FuncTy {
                    args: args.iter().map(|r| rf(*r)).collect::<Result<_, _>>()?,
                    rets: rets.iter().map(|r| rf(*r)).collect::<Result<_, _>>()?,
                    modes: ms,
                })
            }
            Entry::Service(ms) => {
                let mut out: Vec<(String, Ty)> = Vec::new();
                for (name, r) in ms {
                    let name = String::from_utf8(name.clone())
                        .map_err(|_| WireErr::Table("method name is not UTF-8".into()))?;
                    if let Some(p) = out.last() {
                        if p.0.as_bytes() >= name.as_bytes() {
                            return Err(WireErr::Table(format!("method {name} duplicate or not ascending")));
                        }
                    }
                    // "The serialised data type representing a method type must denote a function type."
                    let ok = *r >= 0 && *r < n && matches!(h.table[*r as usize], Entry::Func { .. });
                    if !ok {
                        // still classify out-of-range first
                        rf(*r)?;
                        return Err(WireErr::Table(format!("method {name} is not a function")));
                    }
                    out.push((name, rf(*r)?));
                }
                Ty::Service(out)
            }
            Entry::Future { op, payload } => Ty::Future(*op, payload.clone()),
            Entry::Raw(_) => return Err(WireErr::Table("raw entry".into())),
        };
        env.0.insert(table_name(i), t);
    }
    let args = h.args.iter().map(|r| rf(*r)).collect::<Result<Vec<_>, _>>()?;
    Ok((env, args))
}

/// The last variable of an alias chain starting at `t` (the one bound to a non-variable).
pub fn last_var(env: &Env, t: &Ty) -> Option<String> {
    let mut cur = t;
    let mut last = None;
    let mut steps = 0;
    while let Ty::Var(x) = cur {
        last = Some(x.clone());
        cur = env.0.get(x)?;
        steps += 1;
        if steps > env.0.len() + 1 {
            return None;
        }
    }
    last
}

/// Definitions that are records reaching themselves through record fields only: they
/// have no (finite) values. Greatest fixed point of "has a field that is such a record".
pub fn infinite_records(env: &Env) -> Vec<String> {
    use std::collections::{HashMap, HashSet};
    // records and, per record, the records its fields lead to (through aliases)
    let records: HashSet<&String> = env.0.iter().filter(|(_, t)| matches!(t, Ty::Record(_))).map(|(k, _)| k).collect();
    let mut deps: HashMap<&String, Vec<String>> = HashMap::new();
    let mut rev: HashMap<String, Vec<&String>> = HashMap::new();
    for name in &records {
        if let Some(Ty::Record(fs)) = env.0.get(*name) {
            let mut d: Vec<String> = fs.iter().filter_map(|(_, t)| last_var(env, t)).filter(|x| records.contains(x)).collect();
            d.sort();
            d.dedup();
            for x in &d {
                rev.entry(x.clone()).or_default().push(*name);
            }
            deps.insert(*name, d);
        }
    }
    // least fixed point of "finite": every record it leads to is finite (worklist, linear in the edges);
    // what remains is the greatest fixed point of "has a field that is such a record"
    let mut pending: HashMap<&String, usize> = deps.iter().map(|(k, d)| (*k, d.len())).collect();
    let mut work: Vec<&String> = pending.iter().filter(|(_, n)| **n == 0).map(|(k, _)| *k).collect();
    let mut finite: HashSet<&String> = HashSet::new();
    while let Some(r) = work.pop() {
        if !finite.insert(r) {
            continue;
        }
        if let Some(users) = rev.get(r) {
            for u in users {
                if let Some(n) = pending.get_mut(*u) {
                    *n -= 1;
                    if *n == 0 {
                        work.push(*u);
                    }
                }
            }
        }
    }
    let mut out: Vec<String> = records.into_iter().filter(|r| !finite.contains(*r)).cloned().collect();
    out.sort();
    out
}

pub struct Decoded {
    pub env: Env,
    pub tys: Vec<Ty>,
    pub vals: Vec<Val>,
    pub header: Header,
    pub header_len: usize,
    /// value nodes visited
    pub nodes: u64,
}

struct ValDec<'a> {
    env: &'a Env,
    rd: Rd<'a>,
    nodes: u64,
    lim: &'a Limits,
    infinite: std::collections::HashSet<String>,
}

impl<'a> ValDec<'a> {
    fn val(&mut self, t: &Ty, depth: usize) -> Result<Val, WireErr> {
        self.nodes += 1;
        if self.nodes > self.lim.max_nodes {
            return Err(WireErr::Budget);
        }
        if depth > self.lim.max_depth {
            return Err(WireErr::Limit("nesting depth".into()));
        }
        // infinitely recursive records are uninhabited
        if let Ty::Var(_) = t {
            let mut v = t;
            while let Ty::Var(x) = v {
                if self.infinite.contains(x) {
                    return Err(WireErr::Value("value of an uninhabited (infinitely recursive) record type".into()));
                }
                v = self.env.0.get(x).ok_or_else(|| WireErr::Table("unbound".into()))?;
            }
        }
        let t = self.env.unf(t).map_err(|e| WireErr::Table(format!("{e:?}")))?;
        Ok(match t {
            Ty::Prim(p) => match p {
                Prim::Null => Val::Null,
                Prim::Reserved => Val::Reserved,
                Prim::Empty => return Err(WireErr::Value("value of type empty".into())),
                Prim::Bool => match self.rd.u8()? {
                    0 => Val::Bool(false),
                    1 => Val::Bool(true),
                    x => return Err(WireErr::Value(format!("bool byte {x}"))),
                },
                Prim::Nat => Val::Nat(self.rd.leb()?),
                Prim::Int => Val::Int(self.rd.sleb()?),
                Prim::Nat8 => Val::NatN(8, self.fixed(1)?),
                Prim::Nat16 => Val::NatN(16, self.fixed(2)?),
                Prim::Nat32 => Val::NatN(32, self.fixed(4)?),
                Prim::Nat64 => Val::NatN(64, self.fixed(8)?),
                Prim::Int8 => Val::IntN(8, self.fixed(1)? as u8 as i8 as i64),
                Prim::Int16 => Val::IntN(16, self.fixed(2)? as u16 as i16 as i64),
                Prim::Int32 => Val::IntN(32, self.fixed(4)? as u32 as i32 as i64),
                Prim::Int64 => Val::IntN(64, self.fixed(8)? as i64),
                Prim::Float32 => Val::F32(self.fixed(4)? as u32),
                Prim::Float64 => Val::F64(self.fixed(8)?),
                Prim::Text => Val::Text(self.text()?),
                Prim::Principal => Val::Principal(self.principal()?),
            },
            Ty::Opt(t) => match self.rd.u8()? {
                0 => Val::Opt(None),
                1 => Val::Opt(Some(Box::new(self.val(t, depth + 1)?))),
                x => return Err(WireErr::Value(format!("opt tag {x}"))),
            },
            Ty::Vec(t) => {
                let n = self.rd.leb_u64("vector length")?;
                let mut out = Vec::new();
                for _ in 0..n {
                    out.push(self.val(t, depth + 1)?);
                }
                Val::Vec(out)
            }
            Ty::Record(fs) => {
                let mut out = Vec::new();
                for (id, t) in fs {
                    out.push((*id, self.val(t, depth + 1)?));
                }
                Val::Record(out)
            }
            Ty::Variant(fs) => {
                let i = self.rd.leb()?;
                let i = usize::try_from(&i).ok().filter(|i| *i < fs.len()).ok_or_else(|| {
                    WireErr::Value(format!("variant index {i} out of range"))
                })?;
                Val::Variant(fs[i].0, Box::new(self.val(&fs[i].1, depth + 1)?))
            }
            Ty::Service(_) => Val::Service(self.principal()?),
            Ty::Func(_) => {
                match self.rd.u8()? {
                    1 => {}
                    0 => return Err(WireErr::Value("opaque reference without reference table".into())),
                    x => return Err(WireErr::Value(format!("reference tag {x}"))),
                }
                let p = self.principal()?;
                let m = self.text()?;
                Val::Func(p, m)
            }
            Ty::Future(..) => {
                let m = self.rd.leb_u64("future value length")?;
                let _n = self.rd.leb()?;
                self.rd.take(m)?;
                Val::Null
            }
            Ty::Class(..) | Ty::Var(_) => return Err(WireErr::Table("not a data type".into())),
        })
    }
    fn fixed(&mut self, n: usize) -> Result<u64, WireErr> {
        let b = self.rd.take(n as u64)?;
        let mut x = 0u64;
        for (i, y) in b.iter().enumerate() {
            x |= (*y as u64) << (8 * i);
        }
        Ok(x)
    }
    fn text(&mut self) -> Result<String, WireErr> {
        let n = self.rd.leb_u64("text length")?;
        let b = self.rd.take(n)?;
        String::from_utf8(b.to_vec()).map_err(|_| WireErr::Value("text is not UTF-8".into()))
    }
    fn principal(&mut self) -> Result<Vec<u8>, WireErr> {
        match self.rd.u8()? {
            1 => {}
            0 => return Err(WireErr::Value("opaque reference without reference table".into())),
            x => return Err(WireErr::Value(format!("reference tag {x}"))),
        }
        let n = self.rd.leb_u64("principal length")?;
        if n > self.lim.max_principal as u64 {
            return Err(WireErr::Limit("principal longer than 29 bytes".into()));
        }
        Ok(self.rd.take(n)?.to_vec())
    }
}

/// The strict total decoder: magic, table, side conditions, values of the declared types,
/// nothing left over.
pub fn decode(b: &[u8], lim: &Limits) -> Result<Decoded, WireErr> {
    let (header, hl) = parse_header(b, lim)?;
    let (env, tys) = header_types(&header)?;
    let infinite: std::collections::HashSet<String> = infinite_records(&env).into_iter().collect();
    let mut d = ValDec { env: &env, rd: Rd { b, pos: hl }, nodes: 0, lim, infinite };
    let mut vals = Vec::new();
    for t in &tys {
        vals.push(d.val(t, 0)?);
    }
    if d.rd.pos != b.len() {
        return Err(WireErr::Trailing);
    }
    let nodes = d.nodes;
    Ok(Decoded { env, tys, vals, header, header_len: hl, nodes })
}

// ---------------------------------------------------------------------------------------
// encoder

#[derive(Clone, Debug, PartialEq, Eq)]
pub enum EncErr {
    IllTyped(String),
    Env(String),
}

pub struct TableBuilder<'a> {
    pub env: &'a Env,
    pub table: Vec<Entry>,
    map: HashMap<Ty, i64>,
    /// share structurally equal anonymous types
    pub dedupe: bool,
}

impl<'a> TableBuilder<'a> {
    pub fn new(env: &'a Env, dedupe: bool) -> Self {
        TableBuilder { env, table: vec![], map: HashMap::new(), dedupe }
    }
    /// `I(t)`
    pub fn iref(&mut self, t: &Ty) -> Result<Ref, EncErr> {
        // resolve alias chains to the last variable
        let mut key = t.clone();
        let mut steps = 0;
        let def: Ty = loop {
            match &key {
                Ty::Var(v) => {
                    let d = self.env.0.get(v).ok_or_else(|| EncErr::Env(format!("unbound {v}")))?;
                    if let Ty::Var(_) = d {
                        key = d.clone();
                        steps += 1;
                        if steps > self.env.0.len() + 1 {
                            return Err(EncErr::Env("vacuous cycle".into()));
                        }
                    } else {
                        break d.clone();
                    }
                }
                other => break other.clone(),
            }
        };
        if let Ty::Prim(p) = def {
            return Ok(p.opcode());
        }
        let shareable = self.dedupe || matches!(key, Ty::Var(_));
        if shareable {
            if let Some(i) = self.map.get(&key) {
                return Ok(*i);
            }
        }
        let idx = self.table.len();
        self.table.push(Entry::Raw(vec![]));
        if shareable {
            self.map.insert(key, idx as i64);
        }
        let e = match &def {
            Ty::Opt(t) => Entry::Opt(self.iref(t)?),
            Ty::Vec(t) => Entry::Vec(self.iref(t)?),
            Ty::Record(fs) => {
                let mut out = vec![];
                for (id, t) in fs {
                    out.push((*id as u64, self.iref(t)?));
                }
                Entry::Record(out)
            }
            Ty::Variant(fs) => {
                let mut out = vec![];
                for (id, t) in fs {
                    out.push((*id as u64, self.iref(t)?));
                }
                Entry::Variant(out)
            }
            Ty::Func(f) => {
                let mut args = vec![];
                for t in &f.args {
                    args.push(self.iref(t)?);
                }
                let mut rets = vec![];
                for t in &f.rets {
                    rets.push(self.iref(t)?);
                }
                Entry::Func { args, rets, modes: f.modes.iter().map(|m| m.code()).collect() }
            }
            Ty::Service(ms) => {
                let mut out = vec![];
                for (n, t) in ms {
                    out.push((n.as_bytes().to_vec(), self.iref(t)?));
                }
                Entry::Service(out)
            }
            Ty::Future(op, payload) => Entry::Future { op: *op, payload: payload.clone() },
            Ty::Class(..) => return Err(EncErr::IllTyped("class is not a data type".into())),
            Ty::Prim(_) | Ty::Var(_) => unreachable!(),
        };
        self.table[idx] = e;
        Ok(idx as i64)
    }
}

/// `M(v : t)`
pub fn enc_val(env: &Env, t: &Ty, v: &Val, out: &mut Vec<u8>) -> Result<(), EncErr> {
    let t = env.unf(t).map_err(|e| EncErr::Env(format!("{e:?}")))?;
    let bad = || EncErr::IllTyped(format!("{v} : {t}"));
    match (t, v) {
        (Ty::Prim(Prim::Null), Val::Null) => {}
        (Ty::Prim(Prim::Reserved), _) => {}
        (Ty::Prim(Prim::Bool), Val::Bool(b)) => out.push(*b as u8),
        (Ty::Prim(Prim::Nat), Val::Nat(n)) => out.extend(leb::enc_u(n)),
        (Ty::Prim(Prim::Int), Val::Int(i)) => out.extend(leb::enc_s(i)),
        (Ty::Prim(p), Val::NatN(b, n)) => {
            let w = match p {
                Prim::Nat8 => 8,
                Prim::Nat16 => 16,
                Prim::Nat32 => 32,
                Prim::Nat64 => 64,
                _ => return Err(bad()),
            };
            if w != *b {
                return Err(bad());
            }
            out.extend(&n.to_le_bytes()[..(w / 8) as usize]);
        }
        (Ty::Prim(p), Val::IntN(b, n)) => {
            let w = match p {
                Prim::Int8 => 8,
                Prim::Int16 => 16,
                Prim::Int32 => 32,
                Prim::Int64 => 64,
                _ => return Err(bad()),
            };
            if w != *b {
                return Err(bad());
            }
            out.extend(&n.to_le_bytes()[..(w / 8) as usize]);
        }
        (Ty::Prim(Prim::Float32), Val::F32(b)) => out.extend(b.to_le_bytes()),
        (Ty::Prim(Prim::Float64), Val::F64(b)) => out.extend(b.to_le_bytes()),
        (Ty::Prim(Prim::Text), Val::Text(s)) => {
            out.extend(leb::enc_u64(s.len() as u64));
            out.extend(s.as_bytes());
        }
        (Ty::Prim(Prim::Principal), Val::Principal(b)) | (Ty::Service(_), Val::Service(b)) => {
            out.push(1);
            out.extend(leb::enc_u64(b.len() as u64));
            out.extend(b);
        }
        (Ty::Func(_), Val::Func(b, m)) => {
            out.push(1);
            out.push(1);
            out.extend(leb::enc_u64(b.len() as u64));
            out.extend(b);
            out.extend(leb::enc_u64(m.len() as u64));
            out.extend(m.as_bytes());
        }
        (Ty::Opt(_), Val::Opt(None)) => out.push(0),
        (Ty::Opt(t), Val::Opt(Some(v))) => {
            out.push(1);
            enc_val(env, t, v, out)?;
        }
        (Ty::Vec(t), Val::Vec(vs)) => {
            out.extend(leb::enc_u64(vs.len() as u64));
            for v in vs {
                enc_val(env, t, v, out)?;
            }
        }
        (Ty::Record(fs), Val::Record(vs)) => {
            if fs.len() != vs.len() {
                return Err(bad());
            }
            for ((i, t), (j, v)) in fs.iter().zip(vs) {
                if i != j {
                    return Err(bad());
                }
                enc_val(env, t, v, out)?;
            }
        }
        (Ty::Variant(fs), Val::Variant(i, v)) => {
            let k = fs.iter().position(|f| f.0 == *i).ok_or_else(bad)?;
            out.extend(leb::enc_u64(k as u64));
            enc_val(env, &fs[k].1, v, out)?;
        }
        (Ty::Future(..), Val::Null) => {
            out.push(0);
            out.push(0);
        }
        _ => return Err(bad()),
    }
    Ok(())
}

/// `B(kv* : <datatype>*)` with a canonical table (definitions in first-use order).
pub fn encode(env: &Env, tys: &[Ty], vals: &[Val], dedupe: bool) -> Result<Vec<u8>, EncErr> {
    let (h, m) = encode_parts(env, tys, vals, dedupe)?;
    let mut out = h.to_bytes();
    out.extend(m);
    Ok(out)
}

/// Header and value bytes separately (so that tables can be transformed).
pub fn encode_parts(env: &Env, tys: &[Ty], vals: &[Val], dedupe: bool) -> Result<(Header, Vec<u8>), EncErr> {
    if tys.len() != vals.len() {
        return Err(EncErr::IllTyped("arity".into()));
    }
    let mut tb = TableBuilder::new(env, dedupe);
    let mut args = vec![];
    for t in tys {
        args.push(tb.iref(t)?);
    }
    let mut m = vec![];
    for (t, v) in tys.iter().zip(vals) {
        enc_val(env, t, v, &mut m)?;
    }
    Ok((Header { table: tb.table, args }, m))
}

#[cfg(test)]
mod tests {
    use super::*;
    use crate::ty::P;
    #[test]
    fn roundtrip_list() {
        let env = Env::from(vec![(
            "list",
            Ty::opt(Ty::record(vec![(0, Ty::prim(P::Int)), (1, Ty::var("list"))])),
        )]);
        let v = Val::some(Val::record(vec![(0, Val::int(-3)), (1, Val::none())]));
        let b = encode(&env, &[Ty::var("list")], &[v.clone()], true).unwrap();
        let d = decode(&b, &Limits::default()).unwrap();
        assert_eq!(d.vals, vec![v]);
        assert_eq!(d.header.table.len(), 2);
    }
    #[test]
    fn infinite() {
        let env = Env::from(vec![("table0", Ty::record(vec![(0, Ty::var("table0"))]))]);
        assert_eq!(infinite_records(&env), vec!["table0".to_string()]);
        let env = Env::from(vec![
            ("table0", Ty::record(vec![(0, Ty::var("table1"))])),
            ("table1", Ty::opt(Ty::var("table0"))),
        ]);
        assert!(infinite_records(&env).is_empty());
    }
    #[test]
    fn rejects() {
        let l = Limits::default();
        assert_eq!(decode(b"DIDL\x00\x00", &l).map(|d| d.vals.len()), Ok(0));
        assert!(matches!(decode(b"DIDL\x00\x00\x00", &l), Err(WireErr::Trailing)));
        assert!(matches!(decode(b"DIDX\x00\x00", &l), Err(WireErr::BadMagic)));
        assert!(matches!(decode(b"DIDL\x01\x7f\x00", &l), Err(WireErr::Table(_))));
        assert!(matches!(decode(b"DIDL\x00\x01\x7e\x02", &l), Err(WireErr::Value(_))));
        // unsorted fields
        assert!(matches!(decode(b"DIDL\x01\x6c\x02\x01\x7f\x00\x7f\x01\x00", &l), Err(WireErr::Table(_))));
    }
}
