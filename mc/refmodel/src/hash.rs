//! R7: the label hash (spec "Shorthand: Symbolic Field Ids"), CRC32 (IEEE, reflected,
//! polynomial 0xEDB88320), RFC 4648 base32 without padding, and the textual form of
//! principals (IC interface spec: lower-case base32 of CRC32 || bytes, groups of 5).

/// hash(id) = ( Sum_(i=0..k) utf8(id)[i] * 223^(k-i) ) mod 2^32
pub fn idl_hash(s: &str) -> u32 {
    let b = s.as_bytes();
    let mut acc: u128 = 0;
    for x in b {
        acc = (acc * 223 + *x as u128) % (1u128 << 32);
    }
    acc as u32
}

pub fn crc32(data: &[u8]) -> u32 {
    let mut crc: u32 = 0xFFFF_FFFF;
    for b in data {
        crc ^= *b as u32;
        for _ in 0..8 {
            if crc & 1 == 1 {
                crc = (crc >> 1) ^ 0xEDB8_8320;
            } else {
                crc >>= 1;
            }
        }
    }
    !crc
}

const ALPHA: &[u8; 32] = b"abcdefghijklmnopqrstuvwxyz234567";

pub fn base32_lower_nopad(data: &[u8]) -> String {
    let mut out = String::new();
    let mut acc: u32 = 0;
    let mut bits = 0;
    for b in data {
        acc = (acc << 8) | *b as u32;
        bits += 8;
        while bits >= 5 {
            out.push(ALPHA[((acc >> (bits - 5)) & 31) as usize] as char);
            bits -= 5;
        }
    }
    if bits > 0 {
        out.push(ALPHA[((acc << (5 - bits)) & 31) as usize] as char);
    }
    out
}

/// Strict decoder: lower-case alphabet only, no padding, unused trailing bits must be zero
/// and the length must be one a canonical encoding can have.
pub fn base32_lower_nopad_decode(s: &str) -> Option<Vec<u8>> {
    let mut out = vec![];
    let mut acc: u32 = 0;
    let mut bits = 0;
    for c in s.bytes() {
        let v = ALPHA.iter().position(|a| *a == c)? as u32;
        acc = (acc << 5) | v;
        bits += 5;
        if bits >= 8 {
            out.push(((acc >> (bits - 8)) & 0xff) as u8);
            bits -= 8;
        }
    }
    if bits >= 5 {
        return None; // a whole character carried no byte
    }
    if acc & ((1 << bits) - 1) != 0 {
        return None;
    }
    Some(out)
}

pub fn principal_text(bytes: &[u8]) -> String {
    let mut data = crc32(bytes).to_be_bytes().to_vec();
    data.extend(bytes);
    let s = base32_lower_nopad(&data);
    let mut out = String::new();
    for (i, c) in s.chars().enumerate() {
        if i > 0 && i % 5 == 0 {
            out.push('-');
        }
        out.push(c);
    }
    out
}

/// Reference parser: accepts exactly the canonical text up to ASCII letter case.
pub fn principal_parse(text: &str) -> Option<Vec<u8>> {
    if !text.is_ascii() {
        return None;
    }
    let lower = text.to_ascii_lowercase();
    // grouping
    let groups: Vec<&str> = lower.split('-').collect();
    for (i, g) in groups.iter().enumerate() {
        let last = i + 1 == groups.len();
        if g.is_empty() || g.len() > 5 || (!last && g.len() != 5) {
            return None;
        }
    }
    let joined: String = groups.concat();
    let data = base32_lower_nopad_decode(&joined)?;
    if data.len() < 4 {
        return None;
    }
    let (c, bytes) = data.split_at(4);
    if bytes.len() > 29 {
        return None;
    }
    if crc32(bytes).to_be_bytes() != c {
        return None;
    }
    if principal_text(bytes) != lower {
        return None;
    }
    Some(bytes.to_vec())
}

#[cfg(test)]
mod tests {
    use super::*;
    #[test]
    fn known() {
        assert_eq!(crc32(b"123456789"), 0xCBF43926);
        assert_eq!(principal_text(&[]), "aaaaa-aa");
        assert_eq!(principal_text(&[4]), "2vxsx-fae");
        assert_eq!(principal_parse("aaaaa-aa"), Some(vec![]));
        assert_eq!(principal_parse("2VXSX-fae"), Some(vec![4]));
        assert_eq!(principal_parse("2vxsx-fa"), None);
        assert_eq!(base32_lower_nopad(b"foobar"), "mzxw6ytboi");
        assert_eq!(idl_hash(""), 0);
        assert_eq!(idl_hash("a"), 97);
        assert_eq!(idl_hash("ab"), 97 * 223 + 98);
    }
}
