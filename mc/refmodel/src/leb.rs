//! R6: unsigned / signed LEB128 on mathematical integers (spec "Notation").
use num_bigint::{BigInt, BigUint};
use num_traits::{One, ToPrimitive, Zero};

/// minimal unsigned LEB128
pub fn enc_u(n: &BigUint) -> Vec<u8> {
    let mut out = vec![];
    let mut n = n.clone();
    let mask = BigUint::from(0x7fu8);
    loop {
        let low = (&n & &mask).to_u8().unwrap();
        n >>= 7;
        if n.is_zero() {
            out.push(low);
            return out;
        }
        out.push(low | 0x80);
    }
}
pub fn enc_u64(n: u64) -> Vec<u8> {
    enc_u(&BigUint::from(n))
}

/// minimal signed LEB128
pub fn enc_s(i: &BigInt) -> Vec<u8> {
    let mut out = vec![];
    let mut i = i.clone();
    let m128 = BigInt::from(128);
    loop {
        // low 7 bits of the two's complement representation = i mod 128 (floored)
        let mut low = (&i % &m128).to_i64().unwrap();
        if low < 0 {
            low += 128;
        }
        let low = low as u8;
        // arithmetic shift right by 7 = floor(i / 128)
        i = (&i - BigInt::from(low)) / &m128;
        let sign_bit = low & 0x40 != 0;
        if (i.is_zero() && !sign_bit) || (i == -BigInt::one() && sign_bit) {
            out.push(low);
            return out;
        }
        out.push(low | 0x80);
    }
}
pub fn enc_i64(n: i64) -> Vec<u8> {
    enc_s(&BigInt::from(n))
}

#[derive(Debug, Clone, PartialEq, Eq)]
pub enum LebErr {
    Unterminated,
}

/// Decode an unsigned LEB128 string (minimal or padded) at the start of `b`.
/// Returns (value, bytes consumed).
pub fn dec_u(b: &[u8]) -> Result<(BigUint, usize), LebErr> {
    let mut v = BigUint::zero();
    for (k, byte) in b.iter().enumerate() {
        v |= BigUint::from(byte & 0x7f) << (7 * k);
        if byte & 0x80 == 0 {
            return Ok((v, k + 1));
        }
    }
    Err(LebErr::Unterminated)
}

/// Decode a signed LEB128 string (minimal or padded).
pub fn dec_s(b: &[u8]) -> Result<(BigInt, usize), LebErr> {
    let mut v = BigInt::zero();
    for (k, byte) in b.iter().enumerate() {
        v += BigInt::from(byte & 0x7f) << (7 * k);
        if byte & 0x80 == 0 {
            if byte & 0x40 != 0 {
                v -= BigInt::one() << (7 * (k + 1));
            }
            return Ok((v, k + 1));
        }
    }
    Err(LebErr::Unterminated)
}

pub fn is_minimal_u(b: &[u8]) -> bool {
    match dec_u(b) {
        Ok((v, n)) => enc_u(&v).len() == n,
        Err(_) => false,
    }
}
pub fn is_minimal_s(b: &[u8]) -> bool {
    match dec_s(b) {
        Ok((v, n)) => enc_s(&v).len() == n,
        Err(_) => false,
    }
}

#[cfg(test)]
mod tests {
    use super::*;
    #[test]
    fn roundtrip() {
        for i in -70000i64..70000 {
            let e = enc_i64(i);
            let (v, n) = dec_s(&e).unwrap();
            assert_eq!(n, e.len());
            assert_eq!(v, BigInt::from(i));
            if i >= 0 {
                let e = enc_u64(i as u64);
                let (v, n) = dec_u(&e).unwrap();
                assert_eq!(n, e.len());
                assert_eq!(v, BigUint::from(i as u64));
            }
        }
        assert_eq!(enc_i64(-1), vec![0x7f]);
        assert_eq!(enc_i64(-64), vec![0x40]);
        assert_eq!(enc_i64(-65), vec![0xbf, 0x7f]);
        assert_eq!(enc_i64(63), vec![0x3f]);
        assert_eq!(enc_i64(64), vec![0xc0, 0x00]);
        assert_eq!(enc_u64(624485), vec![0xe5, 0x8e, 0x26]);
        assert_eq!(enc_i64(-123456), vec![0xc0, 0xbb, 0x78]);
        assert_eq!(dec_s(&[0xff, 0x7f]).unwrap().0, BigInt::from(-1));
        assert_eq!(dec_u(&[0x80, 0x00]).unwrap().0, BigUint::from(0u8));
    }
}
