//! Scope generators (E1 universes): all type terms up to a depth over an alphabet, all
//! small environments, all values of a type over tiny primitive domains.
use crate::ty::{Env, FuncTy, Mode, Prim, Ty};
use crate::val::Val;
use num_bigint::{BigInt, BigUint};

/// Cartesian product of the given factors (in lexicographic order, first factor slowest).
pub fn product<T: Clone>(factors: &[Vec<T>]) -> Vec<Vec<T>> {
    let mut out: Vec<Vec<T>> = vec![vec![]];
    for f in factors {
        let mut next = Vec::with_capacity(out.len() * f.len());
        for p in &out {
            for x in f {
                let mut q = p.clone();
                q.push(x.clone());
                next.push(q);
            }
        }
        out = next;
    }
    out
}

pub fn product_size<T>(factors: &[Vec<T>]) -> usize {
    factors.iter().fold(1usize, |a, f| a.saturating_mul(f.len()))
}

/// Full product when it has at most `cap` elements; otherwise the deterministic covering
/// subset "all-first, all-last, and every factor ranging alone over all its values while
/// the others stay at their first value".
pub fn product_capped<T: Clone + PartialEq>(factors: &[Vec<T>], cap: usize) -> Vec<Vec<T>> {
    if factors.iter().any(|f| f.is_empty()) {
        return vec![];
    }
    if product_size(factors) <= cap {
        return product(factors);
    }
    let first: Vec<T> = factors.iter().map(|f| f[0].clone()).collect();
    let last: Vec<T> = factors.iter().map(|f| f[f.len() - 1].clone()).collect();
    let mut out = vec![first.clone()];
    for (i, f) in factors.iter().enumerate() {
        for x in f.iter().skip(1) {
            let mut q = first.clone();
            q[i] = x.clone();
            out.push(q);
        }
    }
    if !out.contains(&last) {
        out.push(last);
    }
    out
}

#[derive(Clone, Debug)]
pub struct FuncShape {
    pub nargs: usize,
    pub nrets: usize,
    pub modes: Vec<Mode>,
}

#[derive(Clone, Debug, Default)]
pub struct TyAlphabet {
    pub leaves: Vec<Ty>,
    pub opt: bool,
    pub vec: bool,
    pub record_labels: Vec<Vec<u32>>,
    pub variant_labels: Vec<Vec<u32>>,
    pub funcs: Vec<FuncShape>,
    /// method-name sets; methods are typed by the function terms of the previous level
    pub services: Vec<Vec<String>>,
    /// argument / field types inside func and service are drawn from this many of the
    /// smallest terms only (keeps reference types from exploding)
    pub func_arg_pool: usize,
}

/// All terms of depth <= `depth` (depth 0 = leaves).
pub fn terms(a: &TyAlphabet, depth: usize) -> Vec<Ty> {
    let mut levels: Vec<Vec<Ty>> = vec![a.leaves.clone()];
    for _ in 0..depth {
        let prev: Vec<Ty> = levels.concat();
        let mut new: Vec<Ty> = vec![];
        let push = |t: Ty, new: &mut Vec<Ty>| {
            if !prev.contains(&t) && !new.contains(&t) {
                new.push(t);
            }
        };
        if a.opt {
            for t in &prev {
                push(Ty::opt(t.clone()), &mut new);
            }
        }
        if a.vec {
            for t in &prev {
                push(Ty::vec(t.clone()), &mut new);
            }
        }
        for ls in &a.record_labels {
            for combo in product(&vec![prev.clone(); ls.len()]) {
                push(Ty::record(ls.iter().cloned().zip(combo).collect()), &mut new);
            }
        }
        for ls in &a.variant_labels {
            for combo in product(&vec![prev.clone(); ls.len()]) {
                push(Ty::variant(ls.iter().cloned().zip(combo).collect()), &mut new);
            }
        }
        let pool: Vec<Ty> = prev.iter().take(if a.func_arg_pool == 0 { prev.len() } else { a.func_arg_pool }).cloned().collect();
        let mut funcs_now: Vec<Ty> = vec![];
        for fs in &a.funcs {
            for args in product(&vec![pool.clone(); fs.nargs]) {
                for rets in product(&vec![pool.clone(); fs.nrets]) {
                    let t = Ty::Func(FuncTy { args: args.clone(), rets, modes: fs.modes.clone() });
                    funcs_now.push(t.clone());
                    push(t, &mut new);
                }
            }
        }
        let func_terms: Vec<Ty> = prev
            .iter()
            .filter(|t| matches!(t, Ty::Func(_)))
            .cloned()
            .chain(funcs_now.into_iter())
            .collect();
        let fpool: Vec<Ty> = func_terms.iter().take(if a.func_arg_pool == 0 { func_terms.len() } else { a.func_arg_pool }).cloned().collect();
        for names in &a.services {
            for combo in product(&vec![fpool.clone(); names.len()]) {
                push(Ty::service(names.iter().cloned().zip(combo).collect()), &mut new);
            }
        }
        levels.push(new);
    }
    levels.concat()
}

/// All environments binding each of `names` to one of `rhs` (the cross product), keeping
/// only closed, non-vacuous ones.
pub fn envs(names: &[&str], rhs: &[Ty]) -> Vec<Env> {
    let mut out = vec![];
    for combo in product(&vec![rhs.to_vec(); names.len()]) {
        let e = Env(names.iter().map(|n| n.to_string()).zip(combo).collect());
        if e.closed().is_ok() {
            out.push(e);
        }
    }
    out
}

#[derive(Clone, Debug)]
pub struct ValDomain {
    pub nat: Vec<BigUint>,
    pub int: Vec<BigInt>,
    pub nat8: Vec<u64>,
    pub nat16: Vec<u64>,
    pub nat32: Vec<u64>,
    pub nat64: Vec<u64>,
    pub int8: Vec<i64>,
    pub int16: Vec<i64>,
    pub int32: Vec<i64>,
    pub int64: Vec<i64>,
    pub f32: Vec<u32>,
    pub f64: Vec<u64>,
    pub text: Vec<String>,
    pub principal: Vec<Vec<u8>>,
    pub method: Vec<String>,
    pub vec_lens: Vec<usize>,
    /// cap on the number of values produced for any one type node
    pub cap: usize,
}

fn pow2(k: u32) -> BigUint {
    BigUint::from(1u8) << k
}

impl ValDomain {
    pub fn tiny() -> ValDomain {
        ValDomain {
            // 64: the one-byte unsigned LEB128 whose bit 6 a signed reader takes for the sign
            nat: vec![BigUint::from(0u8), BigUint::from(64u8), BigUint::from(128u8)],
            int: vec![BigInt::from(0), BigInt::from(-65)],
            nat8: vec![0, 255],
            nat16: vec![0, 0xff01],
            nat32: vec![1, 0xff000001],
            nat64: vec![0, u64::MAX - 1],
            int8: vec![0, -128],
            int16: vec![1, -32768],
            int32: vec![-1, i32::MAX as i64],
            int64: vec![0, i64::MIN],
            f32: vec![0, 0x3fc00000],
            f64: vec![0x8000000000000000, 0x3ff8000000000000],
            text: vec!["".into(), "é".into()],
            principal: vec![vec![], vec![0xca, 0xff, 0xee]],
            method: vec!["m".into()],
            vec_lens: vec![0, 2],
            cap: 64,
        }
    }
    pub fn boundary() -> ValDomain {
        ValDomain {
            nat: vec![
                BigUint::from(0u8),
                BigUint::from(127u8),
                BigUint::from(128u8),
                pow2(63) - 1u8,
                pow2(63),
                pow2(64),
                pow2(128),
            ],
            int: vec![
                BigInt::from(0),
                BigInt::from(-1),
                BigInt::from(63),
                BigInt::from(-64),
                BigInt::from(64),
                BigInt::from(-65),
                BigInt::from(pow2(62)),
                -BigInt::from(pow2(62)) - 1,
                BigInt::from(pow2(63)),
                -BigInt::from(pow2(64)),
                BigInt::from(pow2(127)),
            ],
            nat8: vec![0, 1, 255],
            nat16: vec![0, 0xff01, 65535],
            nat32: vec![0, 0xff000001, u32::MAX as u64],
            nat64: vec![0, 1 << 63, u64::MAX],
            int8: vec![0, -1, -128, 127],
            int16: vec![0, -2, -32768, 32767],
            int32: vec![0, -3, i32::MIN as i64, i32::MAX as i64],
            int64: vec![0, -4, i64::MIN, i64::MAX],
            f32: vec![0, 0x80000000, 0x3fc00000, 0x7fc00001],
            f64: vec![0, 0x8000000000000000, 0x3ff8000000000000, 0x7ff8000000000001],
            text: vec!["".into(), "a".into(), "é\u{1F600}".into()],
            principal: vec![vec![], vec![4], (1..=29).collect()],
            method: vec!["".into(), "m".into(), "é x".into()],
            vec_lens: vec![0, 1, 2],
            cap: 256,
        }
    }
}

/// All values of type `t` over the domain. `fuel` bounds the number of nested
/// constructors (and thereby the unrolling of recursive types): options are non-null and
/// vectors non-empty only while fuel > 0; records and variants keep recursing a little
/// below zero (so that a recursive variant can still reach its leaf case) and have no
/// values within the bound below -3.
pub fn values(env: &Env, t: &Ty, d: &ValDomain, fuel: isize) -> Vec<Val> {
    let t = match env.unf(t) {
        Ok(t) => t,
        Err(_) => return vec![],
    };
    let mut out = match t {
        Ty::Prim(p) => match p {
            Prim::Null => vec![Val::Null],
            Prim::Reserved => vec![Val::Reserved],
            Prim::Empty => vec![],
            Prim::Bool => vec![Val::Bool(false), Val::Bool(true)],
            Prim::Nat => d.nat.iter().cloned().map(Val::Nat).collect(),
            Prim::Int => d.int.iter().cloned().map(Val::Int).collect(),
            Prim::Nat8 => d.nat8.iter().map(|x| Val::NatN(8, *x)).collect(),
            Prim::Nat16 => d.nat16.iter().map(|x| Val::NatN(16, *x)).collect(),
            Prim::Nat32 => d.nat32.iter().map(|x| Val::NatN(32, *x)).collect(),
            Prim::Nat64 => d.nat64.iter().map(|x| Val::NatN(64, *x)).collect(),
            Prim::Int8 => d.int8.iter().map(|x| Val::IntN(8, *x)).collect(),
            Prim::Int16 => d.int16.iter().map(|x| Val::IntN(16, *x)).collect(),
            Prim::Int32 => d.int32.iter().map(|x| Val::IntN(32, *x)).collect(),
            Prim::Int64 => d.int64.iter().map(|x| Val::IntN(64, *x)).collect(),
            Prim::Float32 => d.f32.iter().map(|x| Val::F32(*x)).collect(),
            Prim::Float64 => d.f64.iter().map(|x| Val::F64(*x)).collect(),
            Prim::Text => d.text.iter().cloned().map(Val::Text).collect(),
            Prim::Principal => d.principal.iter().cloned().map(Val::Principal).collect(),
        },
        Ty::Opt(x) => {
            let mut v = vec![Val::Opt(None)];
            if fuel > 0 {
                v.extend(values(env, x, d, fuel - 1).into_iter().map(Val::some));
            }
            v
        }
        Ty::Vec(x) => {
            let mut v = vec![];
            let elems = if fuel > 0 { values(env, x, d, fuel - 1) } else { vec![] };
            for n in &d.vec_lens {
                if *n == 0 {
                    v.push(Val::Vec(vec![]));
                } else if !elems.is_empty() {
                    for combo in product_capped(&vec![elems.clone(); *n], d.cap) {
                        v.push(Val::Vec(combo));
                    }
                }
            }
            v
        }
        Ty::Record(fs) => {
            if fs.is_empty() {
                vec![Val::Record(vec![])]
            } else if fuel < -3 {
                vec![]
            } else {
                let fv: Vec<Vec<Val>> = fs.iter().map(|(_, t)| values(env, t, d, fuel - 1)).collect();
                product_capped(&fv, d.cap)
                    .into_iter()
                    .map(|c| Val::Record(fs.iter().map(|f| f.0).zip(c).collect()))
                    .collect()
            }
        }
        Ty::Variant(fs) => {
            let mut v = vec![];
            if fuel >= -3 {
                for (l, t) in fs {
                    for w in values(env, t, d, fuel - 1) {
                        v.push(Val::Variant(*l, Box::new(w)));
                    }
                }
            }
            v
        }
        Ty::Service(_) => d.principal.iter().cloned().map(Val::Service).collect(),
        Ty::Func(_) => {
            let mut v = vec![];
            for p in &d.principal {
                for m in &d.method {
                    v.push(Val::Func(p.clone(), m.clone()));
                }
            }
            v
        }
        Ty::Future(..) => vec![Val::Null],
        Ty::Class(..) | Ty::Var(_) => vec![],
    };
    if out.len() > d.cap {
        // keep first and last halves deterministically
        let k = d.cap / 2;
        let tail: Vec<Val> = out[out.len() - (d.cap - k)..].to_vec();
        out.truncate(k);
        out.extend(tail);
    }
    out
}

