#!/bin/bash
# helper: run every registered check in the given tier and summarise (not part of the interface)
TIER="${1:-quick}"; shift
IDS="${@:-C01 C02 C03 C04 C05 C06 C07 C08 C09 C10 C11 C12 C13 C14 C15 C16 C17 C18 C19 C20}"
mkdir -p /verif/mc/target/logs
for id in $IDS; do
  s=$(date +%s)
  ./check $id --tier $TIER > /verif/mc/target/logs/$id.$TIER.log 2>&1
  rc=$?
  e=$(date +%s)
  echo "$id rc=$rc $((e-s))s $(grep -c '^VIOLATION' /verif/mc/target/logs/$id.$TIER.log) violations, $(grep -c '^KNOWN-FINDING' /verif/mc/target/logs/$id.$TIER.log) known | $(grep '^SUMMARY' /verif/mc/target/logs/$id.$TIER.log | cut -c1-160)"
done
